#pragma once
struct Log { template<class... A> void write_status(A...){} };
