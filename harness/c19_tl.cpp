// C19: the REAL TimeLine.hpp (constructor, advance, conversions, restart pair).
#include "tape/verif_tape.hpp"
#include "TimeLine.hpp"
extern "C" {
int verif_tape_tag[VERIF_TAPE_N]; uint64_t verif_tape_u[VERIF_TAPE_N]; double verif_tape_d[VERIF_TAPE_N]; int verif_tape_wpos, verif_tape_rpos;
unsigned long __verif_fork_u(unsigned long lo, unsigned long hi);   // Engine B: concrete value in [lo,hi], one path per value
static inline bool pow2(uint64_t x) { return x != 0 && (x & (x - 1)) == 0; }
#define TWO63 0x8000000000000000ull

// N1: one advance() from ANY valid state
__attribute__((noinline)) void h_n1_advance(void) {
  alignas(8) unsigned char buf[sizeof(TimeLine)];
  TimeLine &tl = *reinterpret_cast<TimeLine *>(buf);
  unsigned long b = __verif_fork_u(BLO, BHI);
  unsigned long a = nondet_ulong(); __CPROVER_assume(a <= b);
  uint64_t mn = (uint64_t)1 << a, mx = (uint64_t)1 << b;
  uint64_t cur = nondet_ulong(); __CPROVER_assume(cur < TWO63);
  double A = nondet_double(), B = nondet_double(), req = nondet_double();
  __CPROVER_assume(A >= 0x1p-1000 && A <= 0x1p900);            // A = T * 2^-63 with T in the normal range (stated domain)
  __CPROVER_assume(req > 0.);
  tl._minimum_timestep = mn; tl._maximum_timestep = mx; tl._conversion_factors[0] = A; tl._conversion_factors[1] = B; tl._current_time = cur;
  double actual = -1., now = -1.;
  bool more = tl.advance(req, actual, now);
  uint64_t cur2 = tl._current_time;
  __verif_check(tl._minimum_timestep == mn && tl._maximum_timestep == mx);
  __verif_check(now == tl.to_physical_time(cur2));                          // reported time is the time of the new state
  if (cur2 == cur) {
    __verif_check(!more);                                                   // no progress only when the run is stopped
  } else {
    uint64_t step = cur2 - cur;
    __verif_check(cur2 > cur);                                              // strictly increasing, no wrap
    __verif_check(pow2(step));                                              // power-of-two fraction of the total interval
    __verif_check(step <= mx && step >= mn);
    __verif_check(((TWO63 - cur) & (step - 1)) == 0);                       // divides the time remaining
    __verif_check(cur2 <= TWO63);                                           // never beyond the end
    __verif_check(actual == tl.to_physical_time_interval(step));
    __verif_check(actual <= req);                                           // never larger than requested
    __verif_check(actual <= tl.to_physical_time_interval(mx));              // nor than the configured maximum
    __verif_check(more == (cur2 < TWO63));                                  // "more" exactly until the end is reached
  }
}
// N2: the constructor establishes the representation invariant for all (start<end, min>=0, max>=0)
__attribute__((noinline)) void h_n2_ctor(void) {
  double start = nondet_double(), end = nondet_double(), mind = nondet_double(), maxd = nondet_double();
  double T = end - start;
  __CPROVER_assume(T >= 0x1p-900 && T <= 0x1p960);                          // stated domain: interval in the normal range
  __CPROVER_assume(mind >= 0. && maxd >= 0.);
  TimeLine tl(start, end, mind, maxd, nullptr);
  __verif_check(pow2(tl._minimum_timestep) && pow2(tl._maximum_timestep));
  __verif_check(tl._minimum_timestep <= tl._maximum_timestep);
  __verif_check(tl._maximum_timestep <= TWO63);
  __verif_check(tl._current_time == 0);
  __verif_check(tl._conversion_factors[1] == start);
  __verif_check(tl._conversion_factors[0] * 0x1p63 == T);                   // A * 2^63 == T exactly
  if (mind > 0. && tl._minimum_timestep > 1) __verif_check(tl.to_physical_time_interval(tl._minimum_timestep) <= mind);
  if (maxd > 0. && tl._maximum_timestep > tl._minimum_timestep) __verif_check(tl.to_physical_time_interval(tl._maximum_timestep) <= maxd);
}
// N3: restart pair restores all five words, and write(read(write(x))) == write(x)
__attribute__((noinline)) void h_n3_restart(void) {
  alignas(8) unsigned char buf[sizeof(TimeLine)];
  TimeLine &tl = *reinterpret_cast<TimeLine *>(buf);
  tl._minimum_timestep = nondet_ulong(); tl._maximum_timestep = nondet_ulong(); tl._conversion_factors[0] = nondet_double(); tl._conversion_factors[1] = nondet_double(); tl._current_time = nondet_ulong();
  verif_tape_wpos = verif_tape_rpos = 0;
  RestartWriter w; tl.write_restart_file(w);
  int n1 = verif_tape_wpos;
  RestartReader r; TimeLine t2(r);
  __verif_check(verif_tape_rpos == n1);                                     // everything written is read back
  __verif_check(t2._minimum_timestep == tl._minimum_timestep && t2._maximum_timestep == tl._maximum_timestep && t2._current_time == tl._current_time);
  __verif_check(t2._conversion_factors[0] == tl._conversion_factors[0] && t2._conversion_factors[1] == tl._conversion_factors[1]);
  t2.write_restart_file(w);
  __verif_check(verif_tape_wpos == 2 * n1);
  for (int k = 0; k < 5; ++k) { __verif_check(verif_tape_tag[k] == verif_tape_tag[n1 + k]); __verif_check(verif_tape_u[k] == verif_tape_u[n1 + k]); __verif_check(verif_tape_d[k] == verif_tape_d[n1 + k]); }
}
// N1': physical end time (bit-precise, Engine A): reported end == fl(fl(end-start)+start); equality with `end` is the D7 question
__attribute__((noinline)) void h_n1p_formula(void) {
  alignas(8) unsigned char buf[sizeof(TimeLine)];
  TimeLine &tl = *reinterpret_cast<TimeLine *>(buf);
  double start = nondet_double(), end = nondet_double();
  double T = end - start;
  __CPROVER_assume(T >= 0x1p-900 && T <= 0x1p960 && start == start && !(start > 0x1p1000) && !(start < -0x1p1000));
  tl._conversion_factors[0] = T / TIMELINE_MAX_INTEGER_TIMELINE_SIZE; tl._conversion_factors[1] = start; tl._current_time = TWO63;
  double rep = tl.to_physical_time(TWO63);
#ifdef ENDTIME_EQ
  __verif_check(rep == end);                                                // D7: lands exactly on the end time?
#else
  __verif_check(rep == T + start);
#endif
}
uint64_t tv_adv(const uint64_t *in) {
  alignas(8) unsigned char buf[sizeof(TimeLine)]; TimeLine &tl = *reinterpret_cast<TimeLine *>(buf);
  unsigned b = in[0] % 64, a = in[1] % (b + 1); double A, B, req; __builtin_memcpy(&A, &in[2], 8); __builtin_memcpy(&B, &in[3], 8); __builtin_memcpy(&req, &in[4], 8);
  if (!(A > 1e-300 && A < 1e200)) A = 0x1p-60; if (!(req > 0)) req = 1.; if (!(B == B)) B = 0.;
  tl._minimum_timestep = (uint64_t)1 << a; tl._maximum_timestep = (uint64_t)1 << b; tl._conversion_factors[0] = A; tl._conversion_factors[1] = B; tl._current_time = in[5] >> 1;
  double actual, now; bool more = tl.advance(req, actual, now);
  uint64_t ab; __builtin_memcpy(&ab, &actual, 8);
  return tl._current_time * 3 + (uint64_t)more + ab;
}
}
