// C16: REAL MortonKeyGenerator.hpp and CartesianDensityGrid.{hpp,cpp} indexing code
#include "MortonKeyGenerator.hpp"
#include "CartesianDensityGrid.cpp"
#include "DensityGrid.cpp"
extern "C" {
// ---------------- K1: Morton keys
// (Engine B) the key is the bit interleave of the three 21-bit integer coordinates the code derives from the position
__attribute__((noinline)) void h_k1_interleave(void) {
  double a[3], s[3], c[3];
  for (int k = 0; k < 3; ++k) { a[k] = nondet_double(); s[k] = nondet_double(); c[k] = nondet_double(); __CPROVER_assume(s[k] > 0.); }
  Box<> box(CoordinateVector<>(a[0], a[1], a[2]), CoordinateVector<>(s[0], s[1], s[2]));
  MortonKeyGenerator g(box);
  morton_key_t key = g.get_key(CoordinateVector<>(c[0], c[1], c[2]));
  // the same integer coordinates (identical terms), interleaved by an independent reference loop
  uint32_t b[3]; for (int k = 0; k < 3; ++k) b[k] = 0x001fffff * (c[k] - a[k]) / s[k];
  __CPROVER_assume(b[0] <= 0x1fffff && b[1] <= 0x1fffff && b[2] <= 0x1fffff);
  uint64_t ref = 0;
  for (int i = 0; i < 21; ++i) ref |= ((uint64_t)((b[0] >> i) & 1) << (3 * i + 2)) | ((uint64_t)((b[1] >> i) & 1) << (3 * i + 1)) | ((uint64_t)((b[2] >> i) & 1) << (3 * i));
  __verif_check(key == ref);
  __verif_check(key < ((uint64_t)1 << 63));
}
// ---------------- K3: Cartesian indexing
struct G { alignas(8) unsigned char buf[sizeof(CartesianDensityGrid)]; CartesianDensityGrid &g() { return *reinterpret_cast<CartesianDensityGrid *>(buf); } };
static inline void setup_axis(CartesianDensityGrid &g, int ax, double a, double s, int n, bool per) {
  // the two formulas of the CartesianDensityGrid constructor (CartesianDensityGrid.cpp:75-82)
  const_cast<CoordinateVector<> &>(const_cast<Box<> &>(g._box).get_anchor())[ax] = a;
  const_cast<CoordinateVector<> &>(const_cast<Box<> &>(g._box).get_sides())[ax] = s;
  g._ncell[ax] = n; g._cellside[ax] = s / n; g._inverse_cellside[ax] = 1. / g._cellside[ax];
  const_cast<CoordinateVector< bool > &>(g._periodicity_flags)[ax] = per;
}
#ifndef NMAX
#define NMAX 64
#endif
__attribute__((noinline)) void h_k3_index(void) {
  G gg; CartesianDensityGrid &g = gg.g();
  double a = nondet_double(), s = nondet_double(), p = nondet_double(); int n = nondet_int();
  __CPROVER_assume(a >= -0x1p100 && a <= 0x1p100 && s >= 0x1p-100 && s <= 0x1p100 && n >= 1 && n <= NMAX);
  __CPROVER_assume(p >= a && p < a + s);
  __CPROVER_assume(p - a < 0x1p30 * (s / n));                              // index fits the integer type (no UB in the double->int conversion)                                   // inside the half-open box
  setup_axis(g, 0, a, s, n, false); setup_axis(g, 1, 0., 1., 1, false); setup_axis(g, 2, 0., 1., 1, false);
  CoordinateVector< int_fast32_t > idx = g.get_cell_indices(CoordinateVector<>(p, 0.5, 0.5));
  __verif_check(idx.y() == 0 && idx.z() == 0);
#ifdef STRICT
  __verif_check(idx.x() < n);                                               // the D8 question: can a position below the top wall get index n?
#else
  __verif_check(idx.x() >= 0);                                              // never below the first cell (sign reasoning)
#endif
}
// periodic wrap and box test on indices (pure integer/select logic + one add per wrapped axis)
__attribute__((noinline)) void h_k3_wrap(void) {
  G gg; CartesianDensityGrid &g = gg.g();
  int n[3]; bool per[3]; double s[3];
  for (int k = 0; k < 3; ++k) { n[k] = nondet_int(); per[k] = nondet_uchar() & 1; s[k] = nondet_double(); __CPROVER_assume(n[k] >= 1 && n[k] <= 1000 && s[k] > 0. && s[k] < 0x1p100); setup_axis(g, k, 0., s[k], n[k], per[k]); }
  int_fast32_t i0[3]; double p0[3];
  for (int k = 0; k < 3; ++k) { i0[k] = nondet_int(); __CPROVER_assume(i0[k] >= -1 && i0[k] <= n[k]); p0[k] = nondet_double(); __CPROVER_assume(p0[k] > -0x1p100 && p0[k] < 0x1p100); }
  CoordinateVector< int_fast32_t > idx(i0[0], i0[1], i0[2]); CoordinateVector<> pos(p0[0], p0[1], p0[2]);
  bool inside = g.is_inside(idx, pos);
  bool expect = true;
  for (int k = 0; k < 3; ++k) {
    bool out = (i0[k] < 0 || i0[k] >= n[k]);
    if (!per[k]) { expect = expect && !out; __verif_check(idx[k] == i0[k] && pos[k] == p0[k]); }
    else {
      __verif_check(idx[k] >= 0 && idx[k] < n[k]);                              // wrapped back into the grid
      if (i0[k] == -1) { __verif_check(idx[k] == n[k] - 1 && pos[k] == p0[k] + s[k]); }
      else if (i0[k] == n[k]) { __verif_check(idx[k] == 0 && pos[k] == p0[k] - s[k]); }
      else { __verif_check(idx[k] == i0[k] && pos[k] == p0[k]); }
    }
  }
  __verif_check(inside == expect);
}
// long index: row-major bijection onto [0, nx*ny*nz) (Engine A, small symbolic sizes: 64-bit products are bit-blasted)
__attribute__((noinline)) void h_k3_longindex(void) {
  G gg; CartesianDensityGrid &g = gg.g(); int n[3], i[3];
  for (int k = 0; k < 3; ++k) { n[k] = nondet_int(); i[k] = nondet_int(); __CPROVER_assume(n[k] >= 1 && n[k] <= 8 && i[k] >= 0 && i[k] < n[k]); g._ncell[k] = n[k]; }
  cellsize_t li = g.get_long_index(CoordinateVector< int_fast32_t >(i[0], i[1], i[2]));
  __verif_check(li == (cellsize_t)((i[0] * n[1] + i[1]) * n[2] + i[2]));
  __verif_check(li < (cellsize_t)(n[0] * n[1] * n[2]));
  CoordinateVector< int_fast32_t > back = g.get_indices(li);
  __verif_check(back.x() == i[0] && back.y() == i[1] && back.z() == i[2]);
}
// wall intersection: ds is the minimum of the three wall distances, next_index is non-zero exactly on the axes that attain it, with the sign of the direction
__attribute__((noinline)) void h_k3_wall(void) {
  double o[3], d[3], lo[3], sd[3];
  for (int k = 0; k < 3; ++k) { o[k] = nondet_double(); d[k] = nondet_double(); lo[k] = nondet_double(); sd[k] = nondet_double();
    __CPROVER_assume(d[k] >= -1. && d[k] <= 1. && lo[k] > -0x1p60 && lo[k] < 0x1p60 && sd[k] > 0x1p-60 && sd[k] < 0x1p60 && o[k] >= lo[k] && o[k] <= lo[k] + sd[k]); }
  __CPROVER_assume(d[0] != 0. || d[1] != 0. || d[2] != 0.);
  CoordinateVector<> org(o[0], o[1], o[2]), dir(d[0], d[1], d[2]), inv(1. / d[0], 1. / d[1], 1. / d[2]);
  Box<> cell(CoordinateVector<>(lo[0], lo[1], lo[2]), CoordinateVector<>(sd[0], sd[1], sd[2]));
  // stated: every finite wall distance is below DBL_MAX (true for the bounded magnitudes above; not derivable in the abstraction)
  for (int k = 0; k < 3; ++k) { __CPROVER_assume(((lo[k] + sd[k]) - o[k]) * inv[k] < DBL_MAX); __CPROVER_assume((lo[k] - o[k]) * inv[k] < DBL_MAX); }
  CoordinateVector< int_fast8_t > next; double ds = -1.;
  CartesianDensityGrid::get_wall_intersection(org, dir, inv, cell, next, ds);
  int moved = 0;
  for (int k = 0; k < 3; ++k) {
    __verif_check(next[k] == 0 || (d[k] > 0. && next[k] == 1) || (d[k] < 0. && next[k] == -1));   // compatible with the direction sign
    if (d[k] == 0.) __verif_check(next[k] == 0);
    moved += (next[k] != 0);
  }
  __verif_check(moved >= 1);                                                   // some wall is hit
  __verif_check(!(ds < 0.));                                                   // never backwards (origin inside the cell)
}
}
