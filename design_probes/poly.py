import z3,time
def orient(a,b,c,d):
    adx,ady,adz=[a[i]-d[i] for i in range(3)]; bdx,bdy,bdz=[b[i]-d[i] for i in range(3)]; cdx,cdy,cdz=[c[i]-d[i] for i in range(3)]
    return adz*(bdx*cdy-cdx*bdy)+bdz*(cdx*ady-adx*cdy)+cdz*(adx*bdy-bdx*ady)
def det3(r0,r1,r2):
    return r0[0]*(r1[1]*r2[2]-r1[2]*r2[1])-r0[1]*(r1[0]*r2[2]-r1[2]*r2[0])+r0[2]*(r1[0]*r2[1]-r1[1]*r2[0])
P=[[z3.Int(f'{n}{i}') for i in 'xyz'] for n in 'abcd']
a,b,c,d=P
t=time.time()
s=z3.Solver(); s.set('timeout',60000)
s.add(orient(a,b,c,d)!=-orient(b,a,c,d)); print('antisym',s.check(),time.time()-t)
ref=det3([a[i]-d[i] for i in range(3)],[b[i]-d[i] for i in range(3)],[c[i]-d[i] for i in range(3)])
for sign in (1,-1):
    s=z3.Solver(); s.set('timeout',60000); s.add(orient(a,b,c,d)!=sign*ref); print('ref',sign,s.check(),time.time()-t)
# mutant: wrong term
def orient_m(a,b,c,d):
    adx,ady,adz=[a[i]-d[i] for i in range(3)]; bdx,bdy,bdz=[b[i]-d[i] for i in range(3)]; cdx,cdy,cdz=[c[i]-d[i] for i in range(3)]
    return adz*(bdx*cdy-cdx*bdy)+bdz*(cdx*ady-adx*cdy)+cdz*(adx*bdy-bdx*bdy)
s=z3.Solver(); s.set('timeout',60000); s.add(orient_m(a,b,c,d)!=-orient_m(b,a,c,d)); 
for v in sum(P,[]): s.add(v>=0, v<2**52)
print('mutant',s.check(),time.time()-t)
t=time.time()
s=z3.Solver(); s.set('timeout',120000)
for v in sum(P,[]): s.add(v>=0, v<2**52)
r=orient(a,b,c,d)
s.add(z3.Or(r>=2**161, r<=-(2**161))); print('width',s.check(),time.time()-t)
