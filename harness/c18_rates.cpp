// C18-V2: REAL VernerRecombinationRates::get_recombination_rate (the object is given arbitrary tables: the shipped table values are data)
#include "VernerRecombinationRates.cpp"
union UV { VernerRecombinationRates v; UV() {} ~UV() {} }; UV g_v;
extern "C" {
static inline void sym_tables(void) {
  // every table entry the selected ion reads is an arbitrary finite number (the fits use positive coefficients; nothing is assumed here)
  for (int i = 0; i < 30; ++i) for (int j = 0; j < 30; ++j) { for (int k = 0; k < 2; ++k) g_v.v._rrec[k][i][j] = 0.; for (int k = 0; k < 4; ++k) g_v.v._rnew[k][i][j] = 0.; }
  const int zs[12][2] = {{6, 5}, {6, 4}, {7, 7}, {7, 6}, {7, 5}, {8, 8}, {8, 7}, {10, 10}, {10, 9}, {16, 15}, {16, 14}, {16, 13}};
  for (int q = 0; q < 12; ++q) { const int iz = zs[q][0] - 1, in = zs[q][1] - 1;
    for (int k = 0; k < 2; ++k) g_v.v._rrec[k][iz][in] = nondet_double();
    for (int k = 0; k < 4; ++k) g_v.v._rnew[k][iz][in] = nondet_double(); }
}
// every rate the ionization balance asks for is >= 0 at every temperature, whatever the tables hold (the final clamp)
__attribute__((noinline)) void h_v2_nonneg(void) {
  sym_tables();
  const int ion = (int)__verif_fork_u(0, NUMBER_OF_IONNAMES - 1);
  const double T = nondet_double(); __CPROVER_assume((T >= 10.) & (T <= 1.e9));
  const double r = g_v.v.VernerRecombinationRates::get_recombination_rate(ion, T);
  __verif_check(r >= 0.);
}
// hydrogen and helium: strictly positive, and weakly decreasing with temperature
__attribute__((noinline)) void h_v2_hhe(void) {
  const int ion = (int)__verif_fork_u(0, 1) ? ION_He_n : ION_H_n;
  const double T1 = nondet_double(), T2 = nondet_double(); __CPROVER_assume((T1 >= 10.) & (T1 <= T2) & (T2 <= 1.e9));
  const double r1 = g_v.v.VernerRecombinationRates::get_recombination_rate(ion, T1), r2 = g_v.v.VernerRecombinationRates::get_recombination_rate(ion, T2);
  __verif_check(r1 > 0.); __verif_check(r2 > 0.);
  __verif_check(r2 <= r1);                                       // hotter gas recombines more slowly
}
}
