import os, sys
from vlib import *

def harnesses(tier):
    H = []
    shapes = [(1, 1, 1)]      # 2x1x1 was attempted: 22 min, 21% of the path obligations not discharged (term identities across two cells need more axioms) - not registered
    for s in shapes:
        H.append(BHarness('I_interact_%dx%dx%d' % s, 'c02_interact.cpp', 'h_interact', defs=['NCX=%d' % s[0], 'NCY=%d' % s[1], 'NCZ=%d' % s[2]], cflags=['-fopenmp'], timeout=1700, maxsteps=3000000, maxpaths=200000, split=12, strict=True,
            what='DensitySubGrid::interact (entry INSIDE) against the textbook march as specification, on every feasible path: visited cells and their order, wall distances and their minimum, optical depth used = sum n*sum(sigma_i x_i)*l over visited cells, stop INSIDE exactly when the target is reached (with the surplus correction), exit classification = the walls actually crossed, final position exactly on the crossed walls, each visited cell\'s mean-intensity and heating estimators grow by weight*sigma*path (x excess energy) exactly once, other cells untouched, no cell visited twice, no more cells than a straight line can cross',
            bound='block of %dx%dx%d cells; start position, direction (all 27 sign patterns incl. axis-aligned), cell sizes, anchor, per-cell density / H,He neutral fractions / initial estimators, cross sections, weight, energy, target optical depth symbolic; magnitudes 0 or in [2^-60,2^60]' % s))
    if tier == 'thorough':
        H.append(BHarness('I_propagate_eq_interact_1x1x1', 'c02_interact.cpp', 'h_propagate', defs=['NCX=1', 'NCY=1', 'NCZ=1'], cflags=['-fopenmp'], timeout=1700, maxsteps=3000000, maxpaths=200000, split=12, strict=True,
            what='DensitySubGrid::propagate is interact without deposition: run on the same packet it returns the same exit classification, final position and remaining optical depth (identical terms on every path) and leaves every cell estimator untouched',
            bound='single-cell block, all inputs symbolic as in I_interact'))
    return H

def run(tier, only=None):
    ev = Evidence('C02', tier); work = Work('C02')
    ev.assumptions += ['IEEE-UF term level: path lengths, optical depths and estimator increments are compared as TERMS with the specification (same operands, same operations); ties between wall distances are explored as separate paths (edge/corner exits)',
                       'the start cell is the cell the code computes from the start position (assumed consistent with the chosen cell)', 'entry classification INSIDE (packets created in the block); entry through faces/edges/corners is C03-T2']
    ev.outside += ['the two real-number equalities with a tolerance (path lengths sum to the chord, optical depth equals the integral): term identities are decided instead', 'blocks with more than one cell (2x1x1 attempted, not discharging: see DESIGN.md 8.2)', 'subnormal direction components (1/d = inf)', 'compute_optical_depth(); propagate() is compared with interact() in the thorough tier only']
    try:
        hb = [h for h in harnesses(tier) if not only or h.name.startswith(only)]
        violations, broken = run_engine_b('C02', tier, hb, ev, work)
    except Broken as b:
        violations, broken = [], [str(b)]
    work.clean()
    finish(ev, violations, '; '.join(broken) if broken else None)

def replay(path): return generic_replay(path, harnesses('thorough'))
