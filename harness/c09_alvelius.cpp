// C09 (optional component): AlveliusTurbulenceForcing restart pair, decided as reader/writer idempotence on a FREE tape:
// the restart constructor reads an arbitrary well-typed tape (integers small and concrete by position, doubles symbolic), the
// object it builds is dumped again, and the dump must reproduce exactly the entries the constructor consumed (same count, same
// types, same values) - any disagreement between write_restart_file and the restart constructor about order, type or table
// lengths shows up as a shifted or truncated second tape or as an out-of-bounds table access.
#define VERIF_TAPE_N 256
#define VERIF_TAPE_FREE
#include "tape/verif_tape.hpp"
#include "AlveliusTurbulenceForcing.hpp"
#define NFREE 120
extern "C" {
int verif_tape_tag[VERIF_TAPE_N]; uint64_t verif_tape_u[VERIF_TAPE_N]; double verif_tape_d[VERIF_TAPE_N]; int verif_tape_wpos, verif_tape_rpos;
__attribute__((noinline)) void h_r_alvelius(void) {
  for (int p = 0; p < NFREE; ++p) { verif_tape_tag[p] = 0; verif_tape_d[p] = nondet_double(); verif_tape_u[p] = 1 + (p % 3); }   // counts 1,2,3 by position: 1x2x3 sub-grids of 1x2x3 cells, 2 modes
  verif_tape_rpos = 0; verif_tape_wpos = NFREE;
  RestartReader r; AlveliusTurbulenceForcing *b = new AlveliusTurbulenceForcing(r);
  const int n1 = verif_tape_rpos;
  __verif_check(n1 > 30 && n1 <= NFREE);
  RestartWriter w; b->write_restart_file(w);
  __verif_check(verif_tape_wpos - NFREE == n1);                           // the dump has exactly as many entries as the constructor consumed
  for (int k = 0; k < n1; ++k) {
    __verif_check(verif_tape_tag[NFREE + k] == verif_tape_tag[k]);       // same types in the same order
    if (verif_tape_tag[k] == 1) __verif_check(verif_tape_d[NFREE + k] == verif_tape_d[k]); else __verif_check(verif_tape_u[NFREE + k] == verif_tape_u[k]);
  }
}
}
