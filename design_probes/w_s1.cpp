#include "HLLCRiemannSolver.hpp"
#include <new>
extern "C" {
__attribute__((noinline)) void h_antisym(double gamma, double rhoL,const double*uL,double PL,double rhoR,const double*uR,double PR,const double*n,const double*vf,double*o1,double*o2){
  HLLCRiemannSolver s(gamma);
  CoordinateVector<> UL(uL[0],uL[1],uL[2]), UR(uR[0],uR[1],uR[2]), N(n[0],n[1],n[2]), VF(vf[0],vf[1],vf[2]);
  CoordinateVector<> p1, p2; double m1=0,E1=0,m2=0,E2=0;
  s.HLLCRiemannSolver::solve_for_flux(rhoL,UL,PL,rhoR,UR,PR,m1,p1,E1,N,VF);
  CoordinateVector<> MN(-n[0],-n[1],-n[2]);
  s.HLLCRiemannSolver::solve_for_flux(rhoR,UR,PR,rhoL,UL,PL,m2,p2,E2,MN,VF);
  o1[0]=m1;o1[1]=p1[0];o1[2]=p1[1];o1[3]=p1[2];o1[4]=E1;
  o2[0]=m2;o2[1]=p2[0];o2[2]=p2[1];o2[3]=p2[2];o2[4]=E2;
}
}
