#include <assert.h>
#include <stdint.h>
double nondet_double(void); uint64_t nondet_u64(void); unsigned nondet_uint(void);
typedef struct { double xdbl[12]; double carry; uint64_t ir,jr,ir_old,pr; } RG;
#define ONEBIT (1.0/281474976710656.0)
#define STEP(x1,x2,i1,i2,i3) x1=xdbl[i1]-xdbl[i2]; if(x2<0){x1-=ONEBIT;x2+=1;} xdbl[i3]=x2;
static void inc(RG*g){
  int64_t k,kmax; double y1,y2,y3; double*xdbl=g->xdbl; double carry=g->carry; uint64_t ir=g->ir,jr=g->jr;
  for(k=0;ir>0;++k){ y1=xdbl[jr]-xdbl[ir]; y2=y1-carry; if(y2<0){carry=ONEBIT;y2+=1;}else carry=0; xdbl[ir]=y2; ir=(ir+1)%12; jr=(jr+1)%12; }
  kmax=g->pr-12;
  for(;k<=kmax;k+=12){ y1=xdbl[7]-xdbl[0]; y1-=carry;
    STEP(y2,y1,8,1,0) STEP(y3,y2,9,2,1) STEP(y1,y3,10,3,2) STEP(y2,y1,11,4,3) STEP(y3,y2,0,5,4) STEP(y1,y3,1,6,5) STEP(y2,y1,2,7,6) STEP(y3,y2,3,8,7) STEP(y1,y3,4,9,8) STEP(y2,y1,5,10,9) STEP(y3,y2,6,11,10)
    if(y3<0){carry=ONEBIT;y3+=1;}else carry=0; xdbl[11]=y3; }
  kmax=g->pr;
  for(;k<kmax;++k){ y1=xdbl[jr]-xdbl[ir]; y2=y1-carry; if(y2<0){carry=ONEBIT;y2+=1;}else carry=0; xdbl[ir]=y2; ir=(ir+1)%12; jr=(jr+1)%12; }
  g->ir=ir; g->ir_old=ir; g->jr=jr; g->carry=carry;
}
static double next(RG*g){ g->ir=(g->ir+1)%12; if(g->ir==g->ir_old) inc(g); return g->xdbl[g->ir]; }
static int valid(double x){ /* multiple of 2^-48 in [0,1) */ if(!(x>=0.0&&x<1.0)) return 0; double s=x*281474976710656.0; uint64_t k=(uint64_t)s; return (double)k==s; }
int main(void){
  RG g; for(int i=0;i<12;i++){ uint64_t k=nondet_u64(); __CPROVER_assume(k<(1ULL<<48)); g.xdbl[i]=(double)k*ONEBIT; }
  g.carry = nondet_uint()%2 ? ONEBIT:0.0; g.ir=nondet_uint()%12; g.jr=(g.ir+8)%12; g.ir_old=nondet_uint()%12; g.pr=397;
  double u=next(&g);
#ifdef WITNESS
  assert(0);
#endif
  assert(u>=0.0 && u<1.0);
  for(int i=0;i<12;i++) assert(valid(g.xdbl[i]));
  assert(g.carry==0.0||g.carry==ONEBIT);
  return 0; }
