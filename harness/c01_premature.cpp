// C01-H5: REAL PrematureLaunchTaskContext::execute from an arbitrary valid state: one partially filled buffer is turned into exactly one
// task, nothing is lost, and the sub-grid's "largest buffer" cache (the only thing later launches look at) is re-established for ALL
// directions including the internal re-emission buffer.
#include "PrematureLaunchTaskContext.hpp"
#define B PHOTONBUFFER_SIZE
#define NBUF 4
#define NTASK 3
#define QCAP 3
typedef ThreadSafeVector< PhotonBuffer > TSVB; typedef ThreadSafeVector< Task > TSVT; typedef DensitySubGridCreator< DensitySubGrid > Creator;
union UM { MemorySpace m; UM() {} ~UM() {} }; union UB { PhotonBuffer b[NBUF]; UB() {} ~UB() {} };
union UT { TSVT v; UT() {} ~UT() {} }; union UTT { Task t[NTASK]; UTT() {} ~UTT() {} };
union UG { DensitySubGrid g[2]; UG() {} ~UG() {} }; union UC { Creator c; UC() {} ~UC() {} };
union UQ { TaskQueue q[3]; UQ() {} ~UQ() {} };
UM g_m; UB g_b; UT g_t; UTT g_tt; UG g_g; UC g_c; UQ g_q;
extern "C" {
AtomicValue<bool> blocks[NBUF], tlocks[NTASK]; DensitySubGrid *subs[2]; size_t qarr[3][QCAP]; TaskQueue *qptr[2];
struct VecH { DensitySubGrid **b, **e, **c; }; struct VecQ { TaskQueue **b, **e, **c; } qvec;
union UP { PrematureLaunchTaskContext< DensitySubGrid > p; UP() {} ~UP() {} };
}
UP g_p;
extern "C" {
static inline unsigned act_size(const DensitySubGrid &G, int d) { const size_t a = G._active_buffers[d]; return a == NEIGHBOUR_OUTSIDE ? 0u : g_b.b[a]._actual_size; }
__attribute__((noinline)) void h_h5_premature(void) {
  TSVB &v = g_m.m._memory_space; PhotonBuffer *buf = g_b.b;
  const_cast<size_t &>(v._size) = NBUF; v._vector = buf; v._locks = blocks; v._number_taken.set(NBUF); v._current_index.set(0); v._max_number_taken.set(NBUF); v._total_number_taken.set(0);
  TSVT &tv = g_t.v; const_cast<size_t &>(tv._size) = NTASK; tv._vector = g_tt.t; tv._locks = tlocks; for (int i = 0; i < NTASK; ++i) tlocks[i].set(false);
  tv._number_taken.set(0); tv._current_index.set(nondet_ulong()); tv._max_number_taken.set(0); tv._total_number_taken.set(0);
  for (int k = 0; k < 3; ++k) { TaskQueue &q = g_q.q[k]; q._queue = qarr[k]; const_cast<size_t &>(q._size) = QCAP; q._queue_lock._lock.set(false); q._current_queue_size = 0; q._max_queue_size = 0; q._total_queue_size = 0; q._avg_queue_size = 0.; q._avg_queue_size_count = 0.; }
  qptr[0] = &g_q.q[0]; qptr[1] = &g_q.q[1]; qvec.b = qptr; qvec.e = qptr + 2; qvec.c = qptr + 2;
  subs[0] = &g_g.g[0]; subs[1] = &g_g.g[1]; VecH *vs = reinterpret_cast<VecH *>(&g_c.c._subgrids); vs->b = subs; vs->e = subs + 2; vs->c = subs + 2;
  // four held, partially filled buffers; each is the active buffer of some (sub-grid, direction) pair chosen symbolically, or not active at all
  unsigned total0 = 0;
  for (int i = 0; i < NBUF; ++i) { blocks[i].set(true); unsigned s = nondet_uint(); __CPROVER_assume(s >= 1 && s < B); buf[i]._actual_size = s; total0 += s; buf[i]._subgrid_index = nondet_uint() & 1; buf[i]._direction = 0; }
  for (int g = 0; g < 2; ++g) { DensitySubGrid &G = g_g.g[g]; for (int d = 0; d < TRAVELDIRECTION_NUMBER; ++d) { G._active_buffers[d] = NEIGHBOUR_OUTSIDE; G._ngbs[d] = nondet_uint() & 1; }
    G._owning_thread = nondet_int() & 1; G._dependency._lock.set(nondet_uchar() & 1); }
  // the four buffers sit in four FIXED slots (sub-grid 0: internal buffer, corner 5, face 21; sub-grid 1: corner 7), each slot occupied or not
  { const int sg[NBUF] = {0, 0, 0, 1}, sd[NBUF] = {0, 5, 21, 7};
    for (int i = 0; i < NBUF; ++i) { const bool occ = nondet_uchar() & 1; DensitySubGrid &G = g_g.g[sg[i]];
      if (occ) { G._active_buffers[sd[i]] = i; buf[i]._subgrid_index = (sd[i] == 0) ? (unsigned)sg[i] : G._ngbs[sd[i]]; } } }
  // invariant of the cache (kept by the traversal task and by this routine): it names a largest active buffer of the sub-grid, or nothing
  for (int g = 0; g < 2; ++g) { DensitySubGrid &G = g_g.g[g]; unsigned mx = 0; for (int d = 0; d < TRAVELDIRECTION_NUMBER; ++d) if (act_size(G, d) > mx) mx = act_size(G, d);
    const unsigned li = nondet_uint(); __CPROVER_assume(li <= TRAVELDIRECTION_NUMBER);
    if (mx == 0) __CPROVER_assume(li == TRAVELDIRECTION_NUMBER); else __CPROVER_assume(li < TRAVELDIRECTION_NUMBER && act_size(G, li) == mx);
    G._largest_buffer_index = li; G._largest_buffer_size = mx; }
  bool lock0[2] = {g_g.g[0]._dependency._lock.value(), g_g.g[1]._dependency._lock.value()};
  PrematureLaunchTaskContext< DensitySubGrid > &ctx = g_p.p;
  *reinterpret_cast<MemorySpace **>(&reinterpret_cast<char *>(&ctx)[0]) = &g_m.m;
  *reinterpret_cast<Creator **>(&reinterpret_cast<char *>(&ctx)[8]) = &g_c.c;
  *reinterpret_cast<TSVT **>(&reinterpret_cast<char *>(&ctx)[16]) = &tv;
  *reinterpret_cast<VecQ **>(&reinterpret_cast<char *>(&ctx)[24]) = &qvec;
  *reinterpret_cast<TaskQueue **>(&reinterpret_cast<char *>(&ctx)[32]) = &g_q.q[2];
  ctx.execute();
  // ---- what must hold afterwards
  const unsigned ntask = tv._number_taken.value(); __verif_check(ntask <= 1);
  const unsigned nq = g_q.q[0]._current_queue_size + g_q.q[1]._current_queue_size + g_q.q[2]._current_queue_size; __verif_check(nq == ntask);   // the task is queued exactly once
  unsigned total1 = 0; for (int i = 0; i < NBUF; ++i) { __verif_check(blocks[i].value()); total1 += buf[i]._actual_size; } __verif_check(total1 == total0);   // no packet lost, no buffer freed
  for (int g = 0; g < 2; ++g) __verif_check(g_g.g[g]._dependency._lock.value() == lock0[g]);      // every sub-grid lock is as before (taken and released)
  bool launchable = false; for (int g = 0; g < 2; ++g) if (!lock0[g] && g_g.g[g]._largest_buffer_size > 0 || (!lock0[g] && ntask == 1)) launchable = true;
  for (int g = 0; g < 2; ++g) { DensitySubGrid &G = g_g.g[g];                                      // the cache invariant holds again, for ALL 27 directions
    unsigned mx = 0; for (int d = 0; d < TRAVELDIRECTION_NUMBER; ++d) if (act_size(G, d) > mx) mx = act_size(G, d);
    __verif_check(G._largest_buffer_size == mx);
    if (mx == 0) __verif_check(G._largest_buffer_index == TRAVELDIRECTION_NUMBER); else __verif_check(G._largest_buffer_index < TRAVELDIRECTION_NUMBER && act_size(G, G._largest_buffer_index) == mx); }
  if (ntask == 1) {
    int ti = -1; for (int i = 0; i < NTASK; ++i) if (tlocks[i].value()) ti = i;
    __verif_check(ti >= 0); const size_t bi = g_tt.t[ti]._buffer; __verif_check(bi < NBUF);
    for (int g = 0; g < 2; ++g) for (int d = 0; d < TRAVELDIRECTION_NUMBER; ++d) __verif_check(g_g.g[g]._active_buffers[d] != bi);      // the launched buffer is nobody's active buffer any more
    __verif_check(g_tt.t[ti]._subgrid == buf[bi]._subgrid_index);
    if (g_tt.t[ti]._type == TASKTYPE_PHOTON_TRAVERSAL) { __verif_check(g_tt.t[ti]._dependency[0] == &subs[buf[bi]._subgrid_index]->_dependency); __verif_check(g_q.q[subs[buf[bi]._subgrid_index]->_owning_thread]._current_queue_size == 1); }
    else { __verif_check(g_tt.t[ti]._type == TASKTYPE_PHOTON_REEMIT && g_q.q[2]._current_queue_size == 1); }
  } else {
    // nothing launched: every sub-grid was locked or had nothing to launch
    for (int g = 0; g < 2; ++g) __verif_check(lock0[g] || g_g.g[g]._largest_buffer_size == 0);
  }
}
}
