// C11 (sampling structure of the exact solver) and C05-S3/S4 (vacuum agreement HLLC == exact): REAL ExactRiemannSolver.hpp / HLLCRiemannSolver.hpp
#include "HLLCRiemannSolver.hpp"
#include "ExactRiemannSolver.hpp"
extern "C" {
static inline bool dom(double x) { double a = x < 0. ? -x : x; return (a == 0.) | ((a >= 0x1p-100) & (a <= 0x1p100)); }
static inline bool pos(double x) { return (x >= 0x1p-100) & (x <= 0x1p100); }
struct St { double rho, u, P, a, Pinv; };
static inline St state(void) { St s; s.rho = nondet_double(); s.u = nondet_double(); s.P = nondet_double(); s.a = nondet_double(); s.Pinv = nondet_double();
  __CPROVER_assume(pos(s.rho) & pos(s.P) & pos(s.a) & pos(s.Pinv) & dom(s.u)); return s; }
static inline double gam(void) { double g = nondet_double(); __CPROVER_assume(g > 1.00000001 && g <= 2.); return g; }

// X2: left sampling functions are the mirror images of the right ones (u -> -u, dxdt -> -dxdt, velocity negated)
__attribute__((noinline)) void h_x2_mirror(void) {
  ExactRiemannSolver s(gam()); St q = state();
  double ustar = nondet_double(), Pstar = nondet_double(), dxdt = nondet_double();
  __CPROVER_assume(pos(Pstar) & dom(ustar) & dom(dxdt));
  double r1, u1, p1, r2, u2, p2;
  s.sample_left_state(q.rho, q.u, q.P, q.a, q.Pinv, ustar, Pstar, r1, u1, p1, dxdt);
  s.sample_right_state(q.rho, -q.u, q.P, q.a, q.Pinv, -ustar, Pstar, r2, u2, p2, -dxdt);
  __verif_check(r1 == r2); __verif_check(u1 == -u2); __verif_check(p1 == p2);
}
// X2v: the one-sided vacuum samplers are mirror images; vacuum generation is its own mirror image
__attribute__((noinline)) void h_x2_vacuum_mirror(void) {
  ExactRiemannSolver s(gam()); St q = state(); double dxdt = nondet_double(); __CPROVER_assume(dom(dxdt));
  double r1, u1, p1, r2, u2, p2;
  int_fast32_t f1 = s.sample_right_vacuum(q.rho, q.u, q.P, q.a, r1, u1, p1, dxdt);
  int_fast32_t f2 = s.sample_left_vacuum(q.rho, -q.u, q.P, q.a, r2, u2, p2, -dxdt);
  __verif_check(f1 == -f2); __verif_check(r1 == r2); __verif_check(u1 == -u2); __verif_check(p1 == p2);
}
__attribute__((noinline)) void h_x2_vacgen_mirror(void) {
  ExactRiemannSolver s(gam()); St L = state(), Rr = state(); double dxdt = nondet_double(); __CPROVER_assume(dom(dxdt));
  double SR = Rr.u - s._tdgm1 * Rr.a, SL = L.u + s._tdgm1 * L.a;
  __CPROVER_assume(SL < SR);                                   // vacuum generation: the fan edges are ordered (stated)
  double r1, u1, p1, r2, u2, p2;
  int_fast32_t f1 = s.sample_vacuum_generation(L.rho, L.u, L.P, L.a, Rr.rho, Rr.u, Rr.P, Rr.a, r1, u1, p1, dxdt);
  int_fast32_t f2 = s.sample_vacuum_generation(Rr.rho, -Rr.u, Rr.P, Rr.a, L.rho, -L.u, L.P, L.a, r2, u2, p2, -dxdt);
  __verif_check(f1 == -f2); __verif_check(r1 == r2); __verif_check(u1 == -u2); __verif_check(p1 == p2);
}
// X3: the vacuum solution joins the rarefaction fan: inside the fan the vacuum samplers return the SAME terms as the
// fan branch of the non-vacuum rarefaction sampler at the same dxdt
__attribute__((noinline)) void h_x3_right_vacuum_joins_fan(void) {
  ExactRiemannSolver s(gam()); St q = state();
  double ustar = nondet_double(), Pstar = nondet_double(), dxdt = nondet_double();
  __CPROVER_assume(pos(Pstar) & dom(ustar) & dom(dxdt));
  double r1, u1, p1, r2, u2, p2;
  s.sample_right_vacuum(q.rho, q.u, q.P, q.a, r1, u1, p1, dxdt);
  s.sample_left_rarefaction_wave(q.rho, q.u, q.P, q.a, q.Pinv, ustar, Pstar, r2, u2, p2, dxdt);
  const bool head = (q.u - q.a < dxdt);                                   // behind the head of the left rarefaction
  const bool before_vacuum = (q.u + s._tdgm1 * q.a > dxdt);               // ahead of the vacuum front
  const bool before_tail = !(ustar - q.a * std::pow(Pstar * q.Pinv, s._gm1d2g) < dxdt);   // ahead of the tail of the non-vacuum fan
  if (head && before_vacuum && before_tail) { __verif_check(r1 == r2); __verif_check(u1 == u2); __verif_check(p1 == p2); }
  if (!head) { __verif_check(r1 == q.rho && u1 == q.u && p1 == q.P); __verif_check(r2 == q.rho && u2 == q.u && p2 == q.P); }
  if (head && !before_vacuum) { __verif_check(r1 == 0. && u1 == 0. && p1 == 0.); }
}
__attribute__((noinline)) void h_x3_left_vacuum_joins_fan(void) {
  ExactRiemannSolver s(gam()); St q = state();
  double ustar = nondet_double(), Pstar = nondet_double(), dxdt = nondet_double();
  __CPROVER_assume(pos(Pstar) & dom(ustar) & dom(dxdt));
  double r1, u1, p1, r2, u2, p2;
  s.sample_left_vacuum(q.rho, q.u, q.P, q.a, r1, u1, p1, dxdt);
  s.sample_right_rarefaction_wave(q.rho, q.u, q.P, q.a, q.Pinv, ustar, Pstar, r2, u2, p2, dxdt);
  const bool head = (q.u + q.a > dxdt);
  const bool before_vacuum = (q.u - s._tdgm1 * q.a < dxdt);
  const bool before_tail = !(ustar + q.a * std::pow(Pstar * q.Pinv, s._gm1d2g) > dxdt);
  if (head && before_vacuum && before_tail) { __verif_check(r1 == r2); __verif_check(u1 == u2); __verif_check(p1 == p2); }
  if (!head) { __verif_check(r1 == q.rho && u1 == q.u && p1 == q.P); __verif_check(r2 == q.rho && u2 == q.u && p2 == q.P); }
  if (head && !before_vacuum) { __verif_check(r1 == 0. && u1 == 0. && p1 == 0.); }
}
__attribute__((noinline)) void h_x3_vacgen_joins_fan(void) {
  ExactRiemannSolver s(gam()); St L = state(), Rr = state();
  double dxdt = nondet_double(); __CPROVER_assume(dom(dxdt));
  double SR = Rr.u - s._tdgm1 * Rr.a, SL = L.u + s._tdgm1 * L.a;
  __CPROVER_assume(SL < SR);
  double r1, u1, p1, r2, u2, p2;
  int_fast32_t f = s.sample_vacuum_generation(L.rho, L.u, L.P, L.a, Rr.rho, Rr.u, Rr.P, Rr.a, r1, u1, p1, dxdt);
  if (f == -1) { s.sample_right_vacuum(L.rho, L.u, L.P, L.a, r2, u2, p2, dxdt); __verif_check(r1 == r2 && u1 == u2 && p1 == p2); }   // left of the vacuum: same as gas | vacuum
  if (f == 1) { s.sample_left_vacuum(Rr.rho, Rr.u, Rr.P, Rr.a, r2, u2, p2, dxdt); __verif_check(r1 == r2 && u1 == u2 && p1 == p2); }
  if (f == 0) { __verif_check(r1 == 0. && u1 == 0. && p1 == 0.); __verif_check(SL < dxdt && dxdt < SR); }
}
// X4: jump / isentropic relations as term shapes (reference formulas written here from Toro, ch. 4)
__attribute__((noinline)) void h_x4_shapes(void) {
  double g = gam(); ExactRiemannSolver s(g); St q = state();
  double ustar = nondet_double(), Pstar = nondet_double(), dxdt = nondet_double();
  __CPROVER_assume(pos(Pstar) & dom(ustar) & dom(dxdt));
  double r, u, p;
  const double gm1dgp1 = (g - 1) / (g + 1.), PdP = Pstar * q.Pinv;
  s.sample_right_shock_wave(q.rho, q.u, q.P, q.a, q.Pinv, ustar, Pstar, r, u, p, dxdt);
  const double SR = q.u + q.a * std::sqrt(0.5 * (g + 1.) / g * PdP + 0.5 * (g - 1.) / g);
  if (SR > dxdt) { __verif_check(r == q.rho * (PdP + gm1dgp1) / (gm1dgp1 * PdP + 1.)); __verif_check(u == ustar && p == Pstar); }
  else { __verif_check(r == q.rho && u == q.u && p == q.P); }
  s.sample_left_shock_wave(q.rho, q.u, q.P, q.a, q.Pinv, ustar, Pstar, r, u, p, dxdt);
  const double SLs = q.u - q.a * std::sqrt(0.5 * (g + 1.) / g * PdP + 0.5 * (g - 1.) / g);
  if (SLs < dxdt) { __verif_check(r == q.rho * (PdP + gm1dgp1) / (gm1dgp1 * PdP + 1.)); __verif_check(u == ustar && p == Pstar); }
  else { __verif_check(r == q.rho && u == q.u && p == q.P); }
  // rarefaction fan: density and pressure are powers 2/(g-1) and 2g/(g-1) of ONE common base; middle state is isentropic
  s.sample_right_rarefaction_wave(q.rho, q.u, q.P, q.a, q.Pinv, ustar, Pstar, r, u, p, dxdt);
  const bool head = (q.u + q.a > dxdt), tail = (ustar + q.a * std::pow(PdP, 0.5 * (g - 1.) / g) > dxdt);
  if (head && tail) { __verif_check(r == q.rho * std::pow(PdP, 1. / g)); __verif_check(u == ustar && p == Pstar); }
  if (head && !tail) {
    const double base = 2. / (g + 1.) - gm1dgp1 * (q.u - dxdt) / q.a;
    __verif_check(r == q.rho * std::pow(base, 2. / (g - 1.))); __verif_check(p == q.P * std::pow(base, 2. * g / (g - 1.)));
    __verif_check(u == 2. / (g + 1.) * (-q.a + 0.5 * (g - 1.) * q.u + dxdt));
  }
  if (!head) { __verif_check(r == q.rho && u == q.u && p == q.P); }                  // ahead of the fan: undisturbed state
}
// X1: regime partition - the wave type is decided by P* against the side pressure alone (shock iff P* > P), and the dispatcher
// returns exactly what the selected wave routine returns
__attribute__((noinline)) void h_x1_dispatch(void) {
  double g = gam(); ExactRiemannSolver s(g); St q = state();
  double ustar = nondet_double(), Pstar = nondet_double(), dxdt = nondet_double();
  __CPROVER_assume(pos(Pstar) & dom(ustar) & dom(dxdt));
  double r, u, p, r2, u2, p2;
  s.sample_right_state(q.rho, q.u, q.P, q.a, q.Pinv, ustar, Pstar, r, u, p, dxdt);
  if (Pstar > q.P) s.sample_right_shock_wave(q.rho, q.u, q.P, q.a, q.Pinv, ustar, Pstar, r2, u2, p2, dxdt);
  else s.sample_right_rarefaction_wave(q.rho, q.u, q.P, q.a, q.Pinv, ustar, Pstar, r2, u2, p2, dxdt);
  __verif_check(r == r2 && u == u2 && p == p2);
  s.sample_left_state(q.rho, q.u, q.P, q.a, q.Pinv, ustar, Pstar, r, u, p, dxdt);
  if (Pstar > q.P) s.sample_left_shock_wave(q.rho, q.u, q.P, q.a, q.Pinv, ustar, Pstar, r2, u2, p2, dxdt);
  else s.sample_left_rarefaction_wave(q.rho, q.u, q.P, q.a, q.Pinv, ustar, Pstar, r2, u2, p2, dxdt);
  __verif_check(r == r2 && u == u2 && p == p2);
}
// C05-S3/S4: on the vacuum branches the HLLC solver samples the same state as the exact solver at x/t = 0; sampled rho,P >= 0
__attribute__((noinline)) void h_s3_hllc_eq_exact_vacuum(void) {
  double g = gam(); ExactRiemannSolver e(g); HLLCRiemannSolver h(g); St L = state(), Rr = state();
  double r1, u1, p1, r2, u2, p2;
  int_fast32_t f1 = h.sample_right_vacuum(L.rho, L.u, L.P, L.a, r1, u1, p1), f2 = e.sample_right_vacuum(L.rho, L.u, L.P, L.a, r2, u2, p2, 0.);
  __verif_check(f1 == f2 && r1 == r2 && u1 == u2 && p1 == p2);
  f1 = h.sample_left_vacuum(Rr.rho, Rr.u, Rr.P, Rr.a, r1, u1, p1); f2 = e.sample_left_vacuum(Rr.rho, Rr.u, Rr.P, Rr.a, r2, u2, p2, 0.);
  __verif_check(f1 == f2 && r1 == r2 && u1 == u2 && p1 == p2);
}
__attribute__((noinline)) void h_s3_hllc_eq_exact_vacgen(void) {
  double g = gam(); ExactRiemannSolver e(g); HLLCRiemannSolver h(g); St L = state(), Rr = state();
  double r1, u1, p1, r2, u2, p2;
  int_fast32_t f1 = h.sample_vacuum_generation(L.rho, L.u, L.P, L.a, Rr.rho, Rr.u, Rr.P, Rr.a, r1, u1, p1);
  int_fast32_t f2 = e.sample_vacuum_generation(L.rho, L.u, L.P, L.a, Rr.rho, Rr.u, Rr.P, Rr.a, r2, u2, p2, 0.);
  __verif_check(f1 == f2 && r1 == r2 && u1 == u2 && p1 == p2);
}
uint64_t tv_sample(const uint64_t *in) {
  double d[10]; for (int k = 0; k < 9; ++k) { __builtin_memcpy(&d[k], &in[k], 8); if (!(d[k] == d[k])) d[k] = 1.; d[k] = d[k] < 0 ? -d[k] : d[k]; if (d[k] < 1e-3) d[k] = 0.5; if (d[k] > 1e3) d[k] = 2.; }
  ExactRiemannSolver s(1.1 + (in[9] % 9) * 0.1); double r, u, p, dx = (in[9] & 16) ? d[7] : -d[7], uu = (in[9] & 32) ? d[1] : -d[1];
  int f = 0;
  switch ((in[9] >> 8) % 5) {
  case 0: s.sample_left_state(d[0], uu, d[2], d[3], 1. / d[2], d[4] - 1., d[5], r, u, p, dx); break;
  case 1: s.sample_right_state(d[0], uu, d[2], d[3], 1. / d[2], d[4] - 1., d[5], r, u, p, dx); break;
  case 2: f = s.sample_right_vacuum(d[0], uu, d[2], d[3], r, u, p, dx); break;
  case 3: f = s.sample_left_vacuum(d[0], uu, d[2], d[3], r, u, p, dx); break;
  default: f = s.sample_vacuum_generation(d[0], -d[1], d[2], d[3], d[6], d[1] + 20., d[8], d[4], r, u, p, dx); break; }
  uint64_t h = (uint64_t)(f + 1), b; double o[3] = {r, u, p};
  for (int k = 0; k < 3; ++k) { __builtin_memcpy(&b, &o[k], 8); if (o[k] != o[k]) b = 0x7ff8000000000000ULL; /* one NaN (sign and payload are not part of the comparison) */ h = h * 1000003u + b; }
  return h;
}
}
