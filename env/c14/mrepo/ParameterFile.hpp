#pragma once
#include <sstream>
#include <algorithm>

#include <string>
enum Quantity { QUANTITY_TIME };
struct ParameterFile { template<class T> T get_value(const char*, T d){ return d; } template<class T> T get_value(const char*, const char* d){ return T(d);} template<Quantity q> double get_physical_value(const char*, const char*){ return 0.; } };
