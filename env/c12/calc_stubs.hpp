// Trivial heap-object models of the four live-output calculator classes (their include guards are claimed):
// C12-M1 is about the OWNER's constructor/destructor pairing, not about the calculators.
#ifndef DENSITYPDFCALCULATOR_HPP
#define DENSITYPDFCALCULATOR_HPP
#define SURFACEDENSITYCALCULATOR_HPP
#define SurfaceDensityIonizedCALCULATOR_HPP
#define VELOCITYPDFCALCULATOR_HPP
#include "Box.hpp"
#include "CoordinateVector.hpp"
#include <string>
class HydroDensitySubGrid;
struct SurfaceDensityCalculator { long tag; SurfaceDensityCalculator(CoordinateVector< int_fast32_t >, CoordinateVector< int_fast32_t >) : tag(1) {}
  void calculate_surface_density(uint_fast32_t, HydroDensitySubGrid &) {} void output(std::string, const Box<>) {} };
struct SurfaceDensityIonizedCalculator { long tag; SurfaceDensityIonizedCalculator(CoordinateVector< int_fast32_t >, CoordinateVector< int_fast32_t >) : tag(2) {}
  void calculate_surface_density(uint_fast32_t, HydroDensitySubGrid &) {} void output(std::string, const Box<>) {} };
struct DensityPDFCalculator { long tag; DensityPDFCalculator(int_fast32_t, double, double, uint_fast32_t) : tag(3) {}
  void calculate_density_PDF(uint_fast32_t, HydroDensitySubGrid &) {} void output(std::string) {} };
struct VelocityPDFCalculator { long tag; VelocityPDFCalculator(int_fast32_t, double, uint_fast32_t) : tag(4) {}
  void calculate_velocity_PDF(uint_fast32_t, HydroDensitySubGrid &) {} void output(std::string) {} };
#endif
