import os, sys
from vlib import *

COMMON = dict(tie_free=True, strict=True, timeout=900, maxpaths=20000)
DOM = 'gamma in (1.00000001,2]; rho,P,a,1/P,P* in [2^-100,2^100]; u,u*,dx/dt zero or within [2^-100,2^100] in magnitude; loop-free; ties of computed comparisons excluded'
def harnesses(tier):
    H = []
    H.append(BHarness('X2_mirror', 'c11_exact.cpp', 'h_x2_mirror', what='sample_left_state is the mirror image of sample_right_state under u->-u, u*->-u*, dx/dt->-dx/dt (density/pressure equal, velocity negated), shock and rarefaction regimes', bound=DOM, **COMMON))
    H.append(BHarness('X2_vacuum_mirror', 'c11_exact.cpp', 'h_x2_vacuum_mirror', what='sample_right_vacuum and sample_left_vacuum are mirror images (flag, density, pressure, negated velocity)', bound=DOM, **COMMON))
    H.append(BHarness('X2_vacgen_mirror', 'c11_exact.cpp', 'h_x2_vacgen_mirror', what='sample_vacuum_generation is its own mirror image under exchange of the states', bound=DOM + '; fan edges ordered SL<SR (stated)', **COMMON))
    H.append(BHarness('X3_right_vacuum_joins_fan', 'c11_exact.cpp', 'h_x3_right_vacuum_joins_fan', what='inside the fan, gas|vacuum sampling returns the same terms as the fan branch of the left rarefaction wave at the same dx/dt; outside: left state before the head, exact vacuum behind the front', bound=DOM, **COMMON))
    H.append(BHarness('X3_left_vacuum_joins_fan', 'c11_exact.cpp', 'h_x3_left_vacuum_joins_fan', what='vacuum|gas sampling joins the right rarefaction fan', bound=DOM, **COMMON))
    H.append(BHarness('X3_vacgen_joins_fan', 'c11_exact.cpp', 'h_x3_vacgen_joins_fan', what='vacuum generation: on each side of the generated vacuum the solution is the one-sided vacuum solution of that side; vacuum exactly between the two fronts', bound=DOM + '; SL<SR', **COMMON))
    H.append(BHarness('X4_shapes', 'c11_exact.cpp', 'h_x4_shapes', what='post-shock density rho*(P*/P+(g-1)/(g+1))/((g-1)/(g+1)*P*/P+1), shock speed, isentropic middle state rho*(P*/P)^(1/g), fan density/pressure as powers 2/(g-1), 2g/(g-1) of one common base, fan velocity formula: equal as terms to reference formulas written from the textbook', bound=DOM, **COMMON))
    H.append(BHarness('X1_dispatch', 'c11_exact.cpp', 'h_x1_dispatch', what='regime partition: sample_right_state / sample_left_state select the shock routine iff P* > P_side and the rarefaction routine otherwise, and return exactly what the selected routine returns', bound=DOM, **COMMON))
    return H

def run(tier, only=None):
    ev = Evidence('C11', tier); work = Work('C11')
    ev.assumptions += ['IEEE-UF abstraction (doubles as reals, rounded ops uninterpreted + IEEE-true ground axioms); pow/sqrt uninterpreted with sign/identity contracts', 'stated domain excludes overflow/underflow; ties excluded']
    ev.outside += ['accuracy of P* (Newton/Brent iteration over pow): numerical-analysis statement, not decidable here', 'continuity in dx/dt as numbers, agreement with a high-precision reference solver', 'solve_brent, guess_P, f, fprime']
    try:
        tv_run_b(work, 'c11_exact.cpp', [('tv_sample', 10)], ev, nvec=300)
        hb = [h for h in harnesses(tier) if not only or h.name.startswith(only)]
        violations, broken = run_engine_b('C11', tier, hb, ev, work)
    except Broken as b:
        violations, broken = [], [str(b)]
    work.clean()
    finish(ev, violations, '; '.join(broken) if broken else None)

def replay(path): return generic_replay(path, harnesses('thorough'))
