// C09 / C12 (optional components with heap state): the random photon source distributions.  Restart constructor on a FREE tape
// (no output file in the dumped run), built in storage with ARBITRARY previous content (as operator new returns it), then
// write_restart_file: the dump reproduces exactly the consumed entries, and every member the destructor and update() read is
// initialised (an uninitialised _output_file is deleted / written through after a restart).
#define VERIF_TAPE_N 256
#define VERIF_TAPE_FREE
#include "tape/verif_tape.hpp"
#include "UniformRandomPhotonSourceDistribution.hpp"
#include "DiscPatchPhotonSourceDistribution.hpp"
#include "CaproniPhotonSourceDistribution.hpp"
#include <new>
#define NFREE 120
extern "C" { unsigned long nondet_ulong(void); }
template <typename T> static inline T *restart_in_dirty_storage(void) {
  static unsigned long store[(sizeof(T) + 7) / 8];
  for (unsigned k = 0; k < (sizeof(T) + 7) / 8; ++k) store[k] = nondet_ulong();             // previous content of the allocation
  RestartReader r; return new (store) T(r);
}
extern "C" {
int verif_tape_tag[VERIF_TAPE_N]; uint64_t verif_tape_u[VERIF_TAPE_N]; double verif_tape_d[VERIF_TAPE_N]; int verif_tape_wpos, verif_tape_rpos;
static inline void free_tape(void) {
  for (int p = 0; p < NFREE; ++p) { verif_tape_tag[p] = 0; verif_tape_d[p] = nondet_double(); verif_tape_u[p] = 1 + (p % 3); }   // counts 1,2,3 by position; bool entries read as false
  verif_tape_rpos = 0; verif_tape_wpos = NFREE;
}
static inline void same_prefix(int n1) {
  __verif_check(n1 > 20 && n1 <= NFREE);
  __verif_check(verif_tape_wpos - NFREE == n1);
  for (int k = 0; k < n1; ++k) { __verif_check(verif_tape_tag[NFREE + k] == verif_tape_tag[k]);
    if (verif_tape_tag[k] == 1) __verif_check(verif_tape_d[NFREE + k] == verif_tape_d[k]); else __verif_check(verif_tape_u[NFREE + k] == verif_tape_u[k]); }
}
__attribute__((noinline)) void h_r_uniformrandom(void) {
  free_tape(); UniformRandomPhotonSourceDistribution *b = restart_in_dirty_storage< UniformRandomPhotonSourceDistribution >();
  const int n1 = verif_tape_rpos;
  __verif_check(b->_output_file == nullptr); __CPROVER_assume(b->_output_file == nullptr);   // no output file in the dumped run: none after the restart (the rest of the harness continues on that branch only)
  RestartWriter w; b->write_restart_file(w); same_prefix(n1);
}
__attribute__((noinline)) void h_r_discpatch(void) {
  free_tape(); DiscPatchPhotonSourceDistribution *b = restart_in_dirty_storage< DiscPatchPhotonSourceDistribution >();
  const int n1 = verif_tape_rpos;
  __verif_check(b->_output_file == nullptr); __CPROVER_assume(b->_output_file == nullptr);
  RestartWriter w; b->write_restart_file(w); same_prefix(n1);
}
__attribute__((noinline)) void h_r_caproni(void) {
  free_tape(); CaproniPhotonSourceDistribution *b = restart_in_dirty_storage< CaproniPhotonSourceDistribution >();
  const int n1 = verif_tape_rpos;
  __verif_check(b->_output_file == nullptr); __CPROVER_assume(b->_output_file == nullptr);
  // this class rebuilds its O-star index list and total luminosity from the luminosities after reading them (their length changes with
  // the tape's arbitrary luminosities), so an arbitrary tape is not reproduced entry by entry: only the pointer clause and a complete,
  // abort-free dump are required here
  RestartWriter w; b->write_restart_file(w);
  __verif_check(n1 > 20 && n1 <= NFREE && verif_tape_wpos > NFREE);
}
}
