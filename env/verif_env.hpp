// Force-included (-include) in front of every harness TU.  Replaces ONLY the
// logging/abort macros of src/Error.hpp (include guard ERROR_HPP); everything
// else the harness sees is the real source text of /repo.
#ifndef ERROR_HPP
#define ERROR_HPP
#include <cinttypes>
#include <cstdio>
#include <cstdlib>
extern "C" {
void __CPROVER_assume(int);
void __verif_check(int);                       // -> __CPROVER_assert in the translated C
void __verif_error_hook(void);
int nondet_int(void);
unsigned int nondet_uint(void);
long nondet_long(void);
unsigned long nondet_ulong(void);
unsigned long __verif_fork_u(unsigned long, unsigned long);
double __verif_dyadic(unsigned long q, unsigned long bound);
void __verif_mark(unsigned long);
unsigned char nondet_uchar(void);
double nondet_double(void);
}
#ifdef VERIF_ERROR_ALLOWED
// cmac_error is a legal outcome for this harness: the path simply ends.
#define cmac_error(s, ...)                                                     \
  {                                                                            \
    __verif_error_hook();                                                      \
    __CPROVER_assume(0);                                                       \
    __builtin_unreachable();                                                   \
  }
#else
#define cmac_error(s, ...)                                                     \
  {                                                                            \
    __verif_error_hook();                                                      \
    __verif_check(0);                                                          \
    __CPROVER_assume(0);                                                       \
    __builtin_unreachable();                                                   \
  }
#endif
#define cmac_warning(s, ...)                                                   \
  {}
#define cmac_status(s, ...)                                                    \
  {}
#ifdef VERIF_ASSERTS
#define cmac_assert(c) __verif_check(!!(c))
#define cmac_assert_message(c, s, ...) __verif_check(!!(c))
#else
#define cmac_assert(c) ((void)0)
#define cmac_assert_message(c, s, ...) ((void)0)
#endif
#endif
