import os, sys
from vlib import *

def harnesses(tier):
    cf = ['-fopenmp']
    return [BHarness('I1_hydrogen_range', 'c06_ion.cpp', 'h_i1_hydrogen', cflags=cf, strict=True, timeout=900,
                what='hydrogen-only closed form: the neutral fraction returned is in [1e-14, 1] for every positive recombination rate, flux and density (sign reasoning: cc = sqrt(bb+1) >= 1, so 1 + aa*(1-cc) <= 1), and exactly 1 for zero flux or zero density',
                bound='alphaH, jH, nH symbolic reals: positive within [2^-100,2^100], jH and nH may be exactly 0; loop-free'),
            BHarness('I1_monotone_taylor', 'c06_ion.cpp', 'h_i1_monotone_taylor', cflags=cf, strict=True, monotone=True, timeout=900,
                what='in the large-flux (Taylor) branch the neutral fraction is weakly decreasing in the radiation field (every rounded operation on the path is monotone)', bound='both evaluations in the bb < 1e-10 branch; symbolic positive inputs'),
            BHarness('R1_hhe_hydrogen_only', 'c06_real.cpp', 'h_r1_hhe_hydrogen_only', cflags=cf, real_model=True, perturb=False, timeout=900,
                what='REAL-MODEL: hydrogen-only gas through the coupled H/He solver (AHe = 0, no helium-ionizing photons; the route the thermal balance takes): 0 < x < 1, helium neutral, and x solves the balance C(1-x)^2 = x to within the series cut-off (relative residual <= 1e-3) on every path through the iteration; no zero denominator',
                bound='alphaH in [1e-20,1e-16], jH in [1e-20,1e3] (the 23 flux decades), nH in [1e4,1e12], T in [1e2,1e5], all symbolic reals; all paths of the iteration (it converges in <= 3 passes here); double operations read as exact real operations (rounding outside this clause), sqrt by s>=0 & s*s=a, exp by positivity/sign facts'),
            BHarness('R1b_hhe_hydrogen_only_jhe', 'c06_real.cpp', 'h_r1b_hhe_hydrogen_only_jhe', cflags=cf, real_model=True, perturb=False, timeout=1200, maxpaths=400,
                what='REAL-MODEL: hydrogen-only gas (AHe = 0) with helium-ionizing photons present (J_He > 0): the helium half of the H/He solver runs on a zero abundance without a zero denominator, 0 < x_H < 1, 0 < x_He <= 1, and x_H still solves the hydrogen balance to 1e-3 on every path',
                bound='alphaH, alphaHe in [1e-20,1e-16], jH, jHe in [1e-20,1e3], nH in [1e4,1e12], T in [1e2,1e5] symbolic reals; all paths of the iteration'),
            BHarness('I2_metal_stages', 'c06_real.cpp', 'h_i2_metals', cflags=cf, real_model=True, perturb=False, timeout=900,
                what='REAL-MODEL: compute_ionization_states_metals with the real ChargeTransferRates: for every positive electron density all 12 metal stage fractions are in [0,1], the tracked stages of C, N, O, Ne, S each sum to at most 1, and no denominator is zero (finite results); the charge-transfer rates are proved positive on the way (1 - 0.92 exp(-8.38 T4) > 0 etc.)',
                bound='12 intensity integrals in [0,1e3], recombination rates in [1e-22,1e-14] (stub: positive), ne in (0,1e13], nh0, nhe0, nhp in [0,1e12], T in [1e2,1e5]; exact real operations, exp/pow by sign facts'),
            BHarness('I3_special_cases', 'c06_real.cpp', 'h_i3_special', cflags=cf, strict=True, timeout=900,
                what='calculate_ionization_state (per cell) without hydrogen-ionizing radiation or without gas: hydrogen and helium exactly neutral (1) resp. absent (0), every metal fraction exactly 0 or 1 with stage sums <= 1, heating estimator normalised exactly once; the calculator object (rates, abundances) is not read on these paths',
                bound='jfac, hfac > 0, n >= 0, mean intensities >= 0 symbolic with (J_H == 0 or n == 0); IEEE-UF')]

def run(tier, only=None):
    ev = Evidence('C06', tier); work = Work('C06')
    ev.assumptions += ['IEEE-UF sign/monotonicity axioms (theorems of binary64 RNE on finite values); stated domain [2^-100,2^100]', 'R1/I2 are REAL-MODEL clauses: each double operation is the exact real operation, so they decide the formulas the code implements, not its rounding (I1 covers rounding for the closed form)']
    ev.stubs += ['NDRates: RecombinationRates returning an arbitrary positive rate per ion (contract of the shipped Verner fits, which are data)']
    ev.outside += ['coupled H/He fixed point with helium present (AHe > 0: exp, pow, <= 20 iterations, abort on non-convergence)', 'metal stages under rounding (I2 is decided in real arithmetic), electron density exactly 0 passed by the caller', 'TemperatureCalculator (tables from files, secant iteration)', 'monotonicity outside the Taylor branch (cancellation: holds only up to round-off)', 'the balance residual under rounding (cancellation in b - sqrt(b^2 - 4 C^2) for large C)']
    try:
        hb = [h for h in harnesses(tier) if not only or h.name.startswith(only)]
        violations, broken = run_engine_b('C06', tier, hb, ev, work)
    except Broken as b:
        violations, broken = [], [str(b)]
    work.clean()
    finish(ev, violations, '; '.join(broken) if broken else None)

def replay(path): return generic_replay(path, harnesses('thorough'))
