#!/usr/bin/env python3
"""Prototype: LLVM IR (clang-14, typed pointers) -> C for cbmc. Reuses irz's parser."""
import re, sys
from irz import *

def cid(n):
    n = n.strip('"')
    if n[0] in '%@': n = n[1:]
    n = n.strip('"')
    return re.sub(r'[^A-Za-z0-9_]', '_', n)

class CGen:
    def __init__(s, m, roots, stubs=()):
        s.m = m; s.roots = roots; s.out = []; s.tdecl = {}; s.torder = []; s.stubs = set(stubs)
        s.helpers = set()
    # ---------- types
    def ctype(s, t):
        if isinstance(t, NamedT):
            s.need_struct(t.name); return 'struct ' + 'S_' + cid(t.name)
        if isinstance(t, IntT):
            b = t.bits
            if b == 1: return 'unsigned char'
            for w in (8, 16, 32, 64):
                if b <= w: return 'uint%d_t' % w
            if b <= 128: return 'unsigned __int128'
        if isinstance(t, DblT): return 'double'
        if isinstance(t, VoidT): return 'void'
        if isinstance(t, FnT): return 'void'   # fn pointers as void*
        if isinstance(t, PtrT):
            inner = t.to
            if isinstance(inner, FnT): return 'void *'
            return s.ctype(inner) + ' *'
        if isinstance(t, ArrT):
            key = 'A%d_%s' % (t.n, re.sub(r'[^A-Za-z0-9]', '_', s.ctype(t.el)))
            if key not in s.tdecl:
                el = s.ctype(t.el)
                s.tdecl[key] = 'struct %s { %s e[%d]; };' % (key, el, max(t.n, 1)); s.torder.append(key)
            return 'struct ' + key
        if isinstance(t, StructT):
            key = 'L_' + re.sub(r'[^A-Za-z0-9]', '_', '_'.join(s.ctype(e) for e in t.els))[:200]
            if key not in s.tdecl:
                body = ' '.join('%s f%d;' % (s.ctype(e), i) for i, e in enumerate(t.els)) or 'char dummy;'
                s.tdecl[key] = 'struct %s { %s };' % (key, body); s.torder.append(key)
            return 'struct ' + key
        raise Exception('ctype %r' % t)
    def need_struct(s, name):
        key = 'S_' + cid(name)
        if key in s.tdecl: return
        s.tdecl[key] = None  # in progress (handles recursion through pointers)
        t = s.m.types[name]
        fields = []
        for i, e in enumerate(t.els):
            if isinstance(e, PtrT): fields.append('void *f%d;' % i)   # break cycles: all pointer fields are void*
            else: fields.append('%s f%d;' % (s.ctype(e), i))
        s.tdecl[key] = 'struct %s { %s }%s;' % (key, ' '.join(fields) or 'char dummy;', ' __attribute__((packed))' if t.packed else '')
        s.torder.append(key)
    # ---------- reachable
    def reach(s):
        seen = []; work = list(s.roots); ext = set()
        while work:
            f = work.pop()
            if f in seen or f in s.stubs: continue
            if f not in s.m.funcs: ext.add(f); continue
            seen.append(f)
            F = Func(s.m, f); s.F[f] = F
            for b in F.order:
                for i in F.blocks[b]:
                    if i.op == 'call' and i.callee[0] == 'glob': work.append(i.callee[1])
        return seen, ext
    # ---------- operands
    def val(s, o, ty, regs_ty=None):
        k = o[0]
        if k == 'reg': return cid(o[1]) if not o[1][1:].isdigit() else 'r' + o[1][1:]
        if k == 'int':
            t = s.m.resolve(ty) if ty is not None else IntT(64)
            bits = getattr(t, 'bits', 64)
            v = o[1] & ((1 << bits) - 1)
            return '((%s)%dULL)' % (s.ctype(t), v) if bits <= 64 else str(v)
        if k == 'dbl':
            v = o[1]
            if v != v: return '(0.0/0.0)'
            if v in (float('inf'), float('-inf')): return '(%s1.0/0.0)' % ('-' if v < 0 else '')
            return '(%s)' % v.hex()
        if k == 'zero':
            t = s.m.resolve(ty)
            if isinstance(t, (IntT, DblT)): return '0'
            if isinstance(t, PtrT): return '((%s)0)' % s.ctype(ty)
            return '(%s){0}' % s.ctype(ty)
        if k == 'undef':
            t = s.m.resolve(ty)
            if isinstance(t, (IntT, DblT)): return '0'
            if isinstance(t, PtrT): return '((%s)0)' % s.ctype(ty)
            return '(%s){0}' % s.ctype(ty)
        if k == 'glob':
            n = o[1]
            if n in s.m.funcs or n in s.m.decls_all: return '((void*)&%s)' % cid(n)
            s.used_globals.add(n); return '(&%s)' % ('g_' + cid(n))
        if k == 'cgep':
            base = s.val(o[2], None)
            return s.gep_expr(o[1], base, [(None, x) for x in o[3]])
        raise Exception('val %r' % (o,))
    def gep_expr(s, bt, base, idx):
        e = '((%s *)(%s))' % (s.ctype(bt), base); t = bt
        for k, (it, io) in enumerate(idx):
            iv = s.val(io, it if it is not None else IntT(64))
            if k == 0:
                e = '(%s + (int64_t)%s)' % (e, iv)
                acc = '(*%s)' % e
            else:
                t = s.m.resolve(t)
                if isinstance(t, StructT):
                    n = io[1]; ft = t.els[n]
                    if isinstance(ft, PtrT) and isinstance(t, StructT) and s.is_named_field_ptr(t):
                        acc = '(*(%s *)&%s.f%d)' % (s.ctype(ft), acc, n)
                    else: acc = '%s.f%d' % (acc, n)
                    t = ft
                elif isinstance(t, ArrT):
                    acc = '%s.e[(int64_t)%s]' % (acc, iv); t = t.el
                else: raise Exception('gep into %r' % t)
        return '(&%s)' % acc
    def is_named_field_ptr(s, t): return True
    # ---------- function
    def sig(s, fname, F=None):
        L = s.m.funcs[fname][0] if fname in s.m.funcs else s.m.decl_lines[fname]
        hdr = L[:L.index(fname)]
        p = P(tokenize(hdr.replace('define', '').replace('declare', '')))
        while p.peek() in ('dso_local','linkonce_odr','internal','weak_odr','hidden','noundef','zeroext','signext','nonnull','noalias','available_externally','weak','external','local_unnamed_addr','unnamed_addr','private') or p.peek() in ('align','dereferenceable'):
            t = p.next()
            if t in ('align','dereferenceable'):
                if p.peek() == '(': p.next(); p.next(); p.next()
                else: p.next()
        rty = p.type()
        return rty
    def emit_func(s, fname):
        F = s.F[fname]; m = s.m
        rty = s.sig(fname)
        regty = {}
        for ty, nm, bv in F.params: regty[nm] = ty
        # infer reg types
        for b in F.order:
            for i in F.blocks[b]:
                if i.dest is None: continue
                op = i.op
                if op in BINOPS or op in ('fneg','select','phi','load','freeze','landingpad'): regty[i.dest] = i.ty
                elif op in ('icmp','fcmp'): regty[i.dest] = IntT(1)
                elif op in CASTS: regty[i.dest] = i.tt
                elif op == 'alloca': regty[i.dest] = PtrT(i.ty)
                elif op == 'getelementptr': regty[i.dest] = PtrT(s.gep_type(i.bt, i.idx))
                elif op == 'call': regty[i.dest] = i.rty
                elif op == 'extractvalue': regty[i.dest] = s.agg_type(i.ty, i.idx)
                elif op == 'insertvalue': regty[i.dest] = i.ty
                elif op in ('cmpxchg',): regty[i.dest] = StructT([i.ty, IntT(1)])
                elif op == 'atomicrmw': regty[i.dest] = i.ty
                else: raise Exception('regty %s' % op)
        def rn(r): return cid(r) if not r[1:].isdigit() else 'r' + r[1:]
        params = ', '.join('%s %s' % (s.ctype(ty), rn(nm)) for ty, nm, bv in F.params) or 'void'
        o = ['%s %s(%s) {' % (s.ctype(rty), cid(fname), params)]
        for r, ty in regty.items():
            if r in [nm for _, nm, _ in F.params]: continue
            o.append('  %s %s;' % (s.ctype(ty), rn(r)))
        nal = 0
        for ty, nm, bv in F.params:
            if bv is not None:
                o.append('  %s bv_%s = *%s; %s = &bv_%s;' % (s.ctype(bv), rn(nm), rn(nm), rn(nm), rn(nm)))
        def V(op, ty): return s.val(op, ty)
        def sx(e, ty):
            b = m.resolve(ty).bits
            w = 8 if b <= 8 else 16 if b <= 16 else 32 if b <= 32 else 64
            if b == w: return '((int%d_t)%s)' % (w, e)
            return '((int%d_t)((int%d_t)((uint%d_t)%s << %d) >> %d))' % (w, w, w, e, w - b, w - b)
        def mask(e, ty):
            b = m.resolve(ty).bits
            if b in (8, 16, 32, 64): return e
            return '(%s & %dULL)' % (e, (1 << b) - 1)
        for b in F.order:
            o.append(' L_%s: ;' % cid(b))
            for i in F.blocks[b]:
                op = i.op; d = rn(i.dest) if i.dest else None
                if op == 'phi': continue
                if op == 'alloca':
                    nal += 1; o.insert(1, '  %s al_%d;' % (s.ctype(i.ty), nal)); o.append('  %s = &al_%d;' % (d, nal))
                elif op == 'load':
                    pre, post = ('__CPROVER_atomic_begin(); ', ' __CPROVER_atomic_end();') if getattr(i, 'atomic', False) else ('', '')
                    o.append('  %s%s = *(%s *)%s;%s' % (pre, d, s.ctype(i.ty), V(i.a, PtrT(i.ty)), post))
                elif op == 'store':
                    pre, post = ('__CPROVER_atomic_begin(); ', ' __CPROVER_atomic_end();') if getattr(i, 'atomic', False) else ('', '')
                    o.append('  %s*(%s *)%s = %s;%s' % (pre, s.ctype(i.ty), V(i.a, PtrT(i.ty)), V(i.v, i.ty), post))
                elif op == 'getelementptr':
                    o.append('  %s = (%s)%s;' % (d, s.ctype(regty[i.dest]), s.gep_expr(i.bt, V(i.base, None), i.idx)))
                elif op in ('bitcast','inttoptr','ptrtoint'):
                    o.append('  %s = (%s)%s;' % (d, s.ctype(i.tt), V(i.a, i.ft)))
                elif op in ('zext','trunc'): o.append('  %s = %s;' % (d, mask('(%s)%s' % (s.ctype(i.tt), V(i.a, i.ft)), i.tt)))
                elif op == 'sext': o.append('  %s = %s;' % (d, mask('(%s)%s' % (s.ctype(i.tt), sx(V(i.a, i.ft), i.ft)), i.tt)))
                elif op == 'sitofp': o.append('  %s = (double)%s;' % (d, sx(V(i.a, i.ft), i.ft)))
                elif op == 'uitofp': o.append('  %s = (double)%s;' % (d, V(i.a, i.ft)))
                elif op == 'fptosi': o.append('  %s = %s;' % (d, mask('(%s)(int64_t)%s' % (s.ctype(i.tt), V(i.a, i.ft)), i.tt)))
                elif op == 'fptoui': o.append('  %s = (%s)%s;' % (d, s.ctype(i.tt), V(i.a, i.ft)))
                elif op in ('fpext','fptrunc','freeze'): o.append('  %s = %s;' % (d, V(i.a, getattr(i, 'ft', getattr(i, 'ty', None)))))
                elif op in ('fadd','fsub','fmul','fdiv'):
                    o.append('  %s = %s %s %s;' % (d, V(i.a, i.ty), {'fadd': '+', 'fsub': '-', 'fmul': '*', 'fdiv': '/'}[op], V(i.b, i.ty)))
                elif op == 'fneg': o.append('  %s = -%s;' % (d, V(i.a, i.ty)))
                elif op in ('add','sub','mul','and','or','xor','udiv','urem','shl','lshr'):
                    c = {'add': '+', 'sub': '-', 'mul': '*', 'and': '&', 'or': '|', 'xor': '^', 'udiv': '/', 'urem': '%', 'shl': '<<', 'lshr': '>>'}[op]
                    o.append('  %s = %s;' % (d, mask('(%s)(%s %s %s)' % (s.ctype(i.ty), V(i.a, i.ty), c, V(i.b, i.ty)), i.ty)))
                elif op in ('sdiv','srem','ashr'):
                    c = {'sdiv': '/', 'srem': '%', 'ashr': '>>'}[op]
                    rhs = sx(V(i.b, i.ty), i.ty) if op != 'ashr' else V(i.b, i.ty)
                    o.append('  %s = %s;' % (d, mask('(%s)(%s %s %s)' % (s.ctype(i.ty), sx(V(i.a, i.ty), i.ty), c, rhs), i.ty)))
                elif op == 'icmp':
                    t = m.resolve(i.ty); a, bb = V(i.a, i.ty), V(i.b, i.ty)
                    if isinstance(t, PtrT): a, bb = '(uintptr_t)' + a, '(uintptr_t)' + bb
                    elif i.pred[0] == 's': a, bb = sx(a, i.ty), sx(bb, i.ty)
                    c = {'eq': '==', 'ne': '!=', 'slt': '<', 'sle': '<=', 'sgt': '>', 'sge': '>=', 'ult': '<', 'ule': '<=', 'ugt': '>', 'uge': '>='}[i.pred]
                    o.append('  %s = (%s %s %s);' % (d, a, c, bb))
                elif op == 'fcmp':
                    a, bb = V(i.a, i.ty), V(i.b, i.ty); pr = i.pred
                    base = {'eq': '==', 'ne': '!=', 'lt': '<', 'le': '<=', 'gt': '>', 'ge': '>='}.get(pr[1:])
                    if pr == 'ord': e = '(%s==%s && %s==%s)' % (a, a, bb, bb)
                    elif pr == 'uno': e = '(%s!=%s || %s!=%s)' % (a, a, bb, bb)
                    elif pr == 'one': e = '(%s<%s || %s>%s)' % (a, bb, a, bb)
                    elif pr == 'ueq': e = '!(%s<%s || %s>%s)' % (a, bb, a, bb)
                    elif pr == 'une': e = '(%s != %s)' % (a, bb)
                    elif pr[0] == 'o': e = '(%s %s %s)' % (a, base, bb)
                    else:  # unordered or cmp == !(ordered inverse)
                        inv = {'lt': '>=', 'le': '>', 'gt': '<=', 'ge': '<'}[pr[1:]]
                        e = '!(%s %s %s)' % (a, inv, bb)
                    o.append('  %s = %s;' % (d, e))
                elif op == 'select': o.append('  %s = %s ? %s : %s;' % (d, V(i.c, IntT(1)), V(i.a, i.ty), V(i.b, i.ty)))
                elif op in ('jmp', 'br', 'switch'):
                    def edge(to):
                        # phi copies for edge b -> to
                        cps = []
                        for pi in s.F[fname].blocks[to]:
                            if pi.op != 'phi': continue
                            for (v, l) in pi.inc:
                                if l == b: cps.append((rn(pi.dest), V(v, pi.ty), s.ctype(pi.ty)))
                        if not cps: return 'goto L_%s;' % cid(to)
                        tmp = ' '.join('%s t_%s = %s;' % (ct, dn, vv) for dn, vv, ct in cps)
                        asg = ' '.join('%s = t_%s;' % (dn, dn) for dn, vv, ct in cps)
                        return '{ %s %s goto L_%s; }' % (tmp, asg, cid(to))
                    if op == 'jmp': o.append('  ' + edge(i.to))
                    elif op == 'br': o.append('  if (%s) %s else %s' % (V(i.c, IntT(1)), edge(i.t), edge(i.f)))
                    else:
                        o.append('  switch (%s) {' % V(i.v, i.ty))
                        bits = m.resolve(i.ty).bits
                        for cv, l in i.cases: o.append('    case %dULL: %s' % (cv & ((1 << bits) - 1), edge(l)))
                        o.append('    default: %s }' % edge(i.default))
                elif op == 'ret': o.append('  return %s;' % (V(i.v, i.ty) if i.v is not None else ''))
                elif op == 'landingpad': o.append('  __CPROVER_assume(0);')
                elif op == 'unreachable': o.append('  __CPROVER_assume(0);' + (' return;' if isinstance(rty, VoidT) else ''))
                elif op == 'call':
                    nm = i.callee[1] if i.callee[0] == 'glob' else None
                    args = [V(a, t) for (t, a, bv) in i.args if not isinstance(t, VoidT)]
                    e = None
                    if nm is None: raise Exception('indirect call in %s' % fname)
                    if nm.startswith('@llvm.lifetime') or nm.startswith('@llvm.dbg') or nm.startswith('@llvm.experimental.noalias') or nm == '@llvm.assume': e = ''
                    elif nm.startswith('@llvm.memcpy') or nm.startswith('@llvm.memmove'): e = 'memmove(%s, %s, %s)' % tuple(args[:3])
                    elif nm.startswith('@llvm.memset'): e = 'memset(%s, %s, %s)' % tuple(args[:3])
                    elif nm == '@llvm.fabs.f64': e = 'fabs(%s)' % args[0]
                    elif nm.startswith('@llvm.umax') or nm.startswith('@llvm.smax') or nm.startswith('@llvm.umin') or nm.startswith('@llvm.smin'):
                        ty = i.args[0][0]; a0, a1 = args
                        if 'smax' in nm or 'smin' in nm: c0, c1 = sx(a0, ty), sx(a1, ty)
                        else: c0, c1 = a0, a1
                        e = '(%s %s %s ? %s : %s)' % (c0, '>' if 'max' in nm else '<', c1, a0, a1)
                    elif nm.startswith('@llvm.umul.with.overflow'):
                        s.helpers.add('umulo'); e = 'verif_umulo(%s, %s)' % tuple(args)
                    elif nm in ('@_Znwm', '@_Znam'): e = 'verif_malloc(%s)' % args[0]
                    elif nm in ('@_ZdlPv', '@_ZdaPv'): e = 'free(%s)' % args[0]
                    else: e = '%s(%s)' % (cid(nm), ', '.join(args)); s.called.add(nm)
                    if e:
                        if d and not isinstance(i.rty, VoidT):
                            if isinstance(s.m.resolve(i.rty), (StructT, ArrT)): o.append('  %s = %s;' % (d, e))
                            else: o.append('  %s = (%s)%s;' % (d, s.ctype(i.rty), e))
                        else: o.append('  %s;' % e)
                    if i.normal is not None:
                        o.append('  goto L_%s;' % cid(i.normal))
                elif op == 'cmpxchg':
                    ct = s.ctype(i.ty)
                    o.append('  __CPROVER_atomic_begin(); %s.f0 = *(%s *)%s; %s.f1 = (%s.f0 == %s); if (%s.f1) *(%s *)%s = %s; __CPROVER_atomic_end();' %
                             (d, ct, V(i.a, None), d, d, V(i.cmp, i.ty), d, ct, V(i.a, None), V(i.new, i.ty)))
                elif op == 'atomicrmw':
                    ct = s.ctype(i.ty); c = {'add': '+', 'sub': '-', 'and': '&', 'or': '|', 'xor': '^'}[i.rmw]
                    o.append('  __CPROVER_atomic_begin(); %s = *(%s *)%s; *(%s *)%s = (%s)(%s %s %s); __CPROVER_atomic_end();' %
                             (d, ct, V(i.a, None), ct, V(i.a, None), ct, d, c, V(i.v, i.ty)))
                elif op == 'extractvalue':
                    t = m.resolve(i.ty); acc = V(i.a, i.ty)
                    for k in i.idx:
                        t = m.resolve(t)
                        acc += ('.f%d' % k) if isinstance(t, StructT) else ('.e[%d]' % k)
                        t = t.els[k] if isinstance(t, StructT) else t.el
                    o.append('  %s = %s;' % (d, acc))
                elif op == 'insertvalue':
                    t = m.resolve(i.ty); acc = d
                    o.append('  %s = %s;' % (d, V(i.a, i.ty)))
                    for k in i.idx:
                        t = m.resolve(t)
                        acc += ('.f%d' % k) if isinstance(t, StructT) else ('.e[%d]' % k)
                        t = t.els[k] if isinstance(t, StructT) else t.el
                    o.append('  %s = %s;' % (acc, V(i.v, i.vt)))
                else: raise Exception('emit %s' % op)
        o.append('}')
        return '\n'.join(o)
    def gep_type(s, bt, idx):
        t = bt
        for k, (it, io) in enumerate(idx):
            if k == 0: continue
            t = s.m.resolve(t)
            if isinstance(t, StructT): t = t.els[io[1]]
            elif isinstance(t, ArrT): t = t.el
        return t
    def agg_type(s, ty, idx):
        t = ty
        for k in idx:
            t = s.m.resolve(t)
            t = t.els[k] if isinstance(t, StructT) else t.el
        return t
    def run(s):
        s.F = {}; s.called = set(); s.used_globals = set()
        s.m.decls_all = set(re.findall(r'^declare [^@]*(@[-a-zA-Z$._0-9"]+)\(', s.m.src, re.M))
        s.m.decl_lines = {mm.group(1): mm.group(0) for mm in re.finditer(r'^declare [^@]*(@[-a-zA-Z$._0-9"]+)\(.*$', s.m.src, re.M)}
        seen, ext = s.reach()
        bodies = [s.emit_func(f) for f in seen]
        protos = []
        for f in seen:
            F = s.F[f]
            protos.append('%s %s(%s);' % (s.ctype(s.sig(f)), cid(f), ', '.join(s.ctype(ty) for ty, nm, bv in F.params) or 'void'))
        for f in sorted(ext):
            if f.startswith('@llvm.') or f in ('@_Znwm','@_Znam','@_ZdlPv','@_ZdaPv') or f not in s.m.decl_lines: continue
            L = s.m.decl_lines[f]; rt = s.sig(f)
            ps = L[L.index(f) + len(f):]; ps = ps[:ps.rindex(')') + 1]
            p = P(tokenize(ps)); p.expect('('); pts = []
            while p.peek() != ')':
                if p.peek() == '...': p.next(); continue
                ty = p.type(); skip_attrs(p); pts.append(s.ctype(ty)); p.eat(',')
            protos.append('%s %s(%s);' % (s.ctype(rt), cid(f), ', '.join(pts) or 'void'))
        gl = []
        for g in sorted(s.used_globals):
            init = s.m.globals[g]
            mm = re.search(r'(?:constant|global) (.*?)(?:, align \d+)?$', init)
            p = P(tokenize(mm.group(1))); ty = p.type()
            try:
                v = operand(p, ty)
                gl.append('static %s g_%s = %s;' % (s.ctype(ty), cid(g), s.cinit(v, ty)))
            except Exception as e:
                gl.append('static %s g_%s; /* init skipped: %s */' % (s.ctype(ty), cid(g), str(e)[:40]))
        pre = ['#include <stdint.h>', '#include <stddef.h>', '#include <string.h>', '#include <stdlib.h>', '#include <math.h>',
               'static void *verif_malloc(size_t n){ void *p = malloc(n); __CPROVER_assume(p != 0); return p; }']
        if 'umulo' in s.helpers:
            ct = s.ctype(StructT([IntT(64), IntT(1)]))
            protos.insert(0, 'static %s verif_umulo(uint64_t a, uint64_t b){ %s r; r.f0 = a * b; r.f1 = (a != 0 && r.f0 / a != b); return r; }' % (ct, ct))
        return '\n'.join(pre + [s.tdecl[k] for k in s.torder if s.tdecl[k]] + ['/* externals: %s */' % ' '.join(sorted(ext))] + protos + gl + bodies), ext
    def cinit(s, v, ty):
        t = s.m.resolve(ty)
        if v[0] == 'carr': return '{{%s}}' % ', '.join(s.cinit(e, t.el) for e in v[1])
        if v[0] == 'int': return str(v[1] & ((1 << t.bits) - 1)) + 'ULL'
        if v[0] == 'dbl': return v[1].hex()
        if v[0] == 'zero': return '{0}'
        raise Exception('cinit %r' % (v,))

def patch_parser():
    import irz
    old = irz.parse_ins
    def parse_ins2(line):
        l2 = re.sub(r', ![a-zA-Z.]+ ![0-9]+', '', line)
        mm = re.match(r'^(%[-a-zA-Z$._0-9]+) = cmpxchg (?:weak )?(?:volatile )?(.*)$', l2)
        if mm:
            p = P(tokenize(mm.group(2))); pt = p.type(); a = operand(p, pt); p.expect(','); ty = p.type(); c = operand(p, ty); p.expect(','); ty2 = p.type(); n = operand(p, ty2)
            return Ins(op='cmpxchg', dest=mm.group(1), ty=ty, a=a, cmp=c, new=n)
        mm = re.match(r'^(%[-a-zA-Z$._0-9]+) = atomicrmw (?:volatile )?(\w+) (.*)$', l2)
        if mm:
            p = P(tokenize(mm.group(3))); pt = p.type(); a = operand(p, pt); p.expect(','); ty = p.type(); v = operand(p, ty)
            return Ins(op='atomicrmw', dest=mm.group(1), rmw=mm.group(2), ty=ty, a=a, v=v)
        if l2.startswith('fence'): return Ins(op='call', dest=None, rty=VoidT(), callee=('glob', '@llvm.assume'), args=[], normal=None)
        ins = old(line)
        if re.search(r'\b(load|store) atomic\b', l2): ins.atomic = True
        return ins
    irz.parse_ins = parse_ins2
    globals()['parse_ins'] = parse_ins2

if __name__ == '__main__':
    patch_parser()
    path = sys.argv[1]; roots = ['@' + r for r in sys.argv[2].split(',')]
    m = parse_module(path); m.src = open(path).read()
    g = CGen(m, roots)
    code, ext = g.run()
    sys.stdout.write(code + '\n')
    sys.stderr.write('externals: %s\n' % sorted(ext))
