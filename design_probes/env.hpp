#ifndef ERROR_HPP
#define ERROR_HPP
#include <cstdio>
#include <cstdlib>
#include <cinttypes>
extern "C" void __verif_error(void) __attribute__((noreturn));
extern "C" void __verif_assert(int);
#define cmac_error(s, ...) { __verif_error(); }
#define cmac_warning(s, ...) {}
#define cmac_status(s, ...) {}
#define cmac_assert(c) ((void)0)
#define cmac_assert_message(c, s, ...) ((void)0)
#endif
