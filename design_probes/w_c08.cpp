#include "TaskQueue.hpp"
#include "MemorySpace.hpp"
extern "C" {
__attribute__((noinline)) size_t tsv_get(ThreadSafeVector<Task>*v){ return v->get_free_element_safe(); }
__attribute__((noinline)) void tsv_free(ThreadSafeVector<Task>*v, size_t i){ v->free_element(i); }
__attribute__((noinline)) size_t q_get(TaskQueue*q, ThreadSafeVector<Task>*v){ return q->get_task(*v); }
__attribute__((noinline)) size_t q_try(TaskQueue*q, ThreadSafeVector<Task>*v){ return q->try_get_task(*v); }
__attribute__((noinline)) void q_add(TaskQueue*q, size_t t){ q->add_task(t); }
__attribute__((noinline)) ThreadSafeVector<Task>* tsv_new(size_t n){ return new ThreadSafeVector<Task>(n); }
__attribute__((noinline)) size_t ms_add(MemorySpace*m, size_t i, const PhotonBuffer*b){ return m->add_photons(i,*b); }
}
