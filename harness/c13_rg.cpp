// C13: the REAL RandomGenerator.hpp (RANLUX ranlxd2 as ported from GSL) against the subtract-with-borrow reference recurrence.
#include "tape/verif_tape.hpp"
#include "RandomGenerator.hpp"
extern "C" {
int verif_tape_tag[VERIF_TAPE_N]; uint64_t verif_tape_u[VERIF_TAPE_N]; double verif_tape_d[VERIF_TAPE_N]; int verif_tape_wpos, verif_tape_rpos;
#define EPS (1.0 / 281474976710656.0)
#define TWO48 281474976710656ul
// reference: one subtract-with-borrow step in base 2^48:  x[ir] <- x[jr] - x[ir] - c (mod 1), c <- borrow
static inline void ref_step(double *x, double &c, unsigned long &ir, unsigned long &jr) {
  double d = (x[jr] - x[ir]) - c;
  if (d < 0) { d = d + 1.0; c = EPS; } else { c = 0.; }
  x[ir] = d; ir = (ir + 1) % 12; jr = (jr + 1) % 12;
}
static inline RandomGenerator &sym_state(unsigned char *buf, double *x0, double &c0) {
  RandomGenerator &g = *reinterpret_cast<RandomGenerator *>(buf);
  for (int i = 0; i < 12; ++i) x0[i] = g._xdbl[i] = __verif_dyadic(48, TWO48);       // any multiple of 2^-48 in [0,1)
  c0 = g._carry = __verif_fork_u(0, 1) ? EPS : 0.;
  return g;
}
static inline void check_valid(const RandomGenerator &g) {
  for (int i = 0; i < 12; ++i) { __verif_check(g._xdbl[i] >= 0.); __verif_check(g._xdbl[i] < 1.); }
  __verif_check(g._carry == 0. || g._carry == EPS);
  __verif_check(g._ir < 12 && g._jr < 12 && g._ir_old == g._ir);
}
static inline void compare(const RandomGenerator &g, const double *x, double c) {
  for (int i = 0; i < 12; ++i) __verif_check(g._xdbl[i] == x[i]);
  __verif_check(g._carry == c);
}
// R1: head loop (entry index j = 1..11, any jr): 12-j reference steps
__attribute__((noinline)) void h_r_head(void) {
  alignas(8) unsigned char buf[sizeof(RandomGenerator)]; double x[12], c;
  RandomGenerator &g = sym_state(buf, x, c);
  unsigned long ir = __verif_fork_u(JLO, JHI), jr = __verif_fork_u(0, 11);
  g._ir = ir; g._jr = jr; g._ir_old = 99; g._pr = 0;
  g.increment_state();
  while (ir > 0) ref_step(x, c, ir, jr);
  compare(g, x, c); check_valid(g);
  __verif_check(g._ir == 0 && g._jr == jr && g._pr == 0);
}
// R2: the unrolled 12-step middle block (one pass) == 12 reference steps with lags (ir, ir+7)
__attribute__((noinline)) void h_r_mid(void) {
  alignas(8) unsigned char buf[sizeof(RandomGenerator)]; double x[12], c;
  RandomGenerator &g = sym_state(buf, x, c);
  unsigned long jr0 = __verif_fork_u(0, 11);
  g._ir = 0; g._jr = jr0; g._ir_old = 99; g._pr = 12;
  g.increment_state();
  unsigned long ir = 0, jr = 7;
  for (int k = 0; k < 12; ++k) ref_step(x, c, ir, jr);
  compare(g, x, c); check_valid(g);
  __verif_check(g._ir == 0 && g._jr == jr0);
}
// R2': one pass of the tail loop
__attribute__((noinline)) void h_r_tail(void) {
  alignas(8) unsigned char buf[sizeof(RandomGenerator)]; double x[12], c;
  RandomGenerator &g = sym_state(buf, x, c);
  unsigned long jr = __verif_fork_u(0, 11), ir = 0;
  g._ir = 0; g._jr = jr; g._ir_old = 99; g._pr = NTAIL;
  g.increment_state();
  for (int k = 0; k < NTAIL; ++k) ref_step(x, c, ir, jr);
  compare(g, x, c); check_valid(g);
  __verif_check(g._ir == ir && g._jr == jr);
}
// R1': the real refill with the shipped luxury level performs exactly 397 steps x[(j+t) mod 12], t=0..396 (store sequence checked by the driver)
__attribute__((noinline)) void h_r_refill(void) {
  alignas(8) unsigned char buf[sizeof(RandomGenerator)]; double x[12], c;
  RandomGenerator &g = sym_state(buf, x, c);
  unsigned long j = __verif_fork_u(JLO, JHI);
  g._ir = j; g._jr = (j + 8) % 12; g._ir_old = 99; g._pr = NREFILL;
  g.increment_state();
  // reference refill: NREFILL steps on slots (j+t) mod 12, t = 0..NREFILL-1; the lag partner of a slot is the running
  // index jr in the single-step phases and slot+7 inside whole 12-blocks (the structure of ranlxd's update())
  unsigned long ir = j, jr = (j + 8) % 12; long count = 0, k = 0;
  while (ir > 0) { __verif_check(ir == (j + count) % 12); ref_step(x, c, ir, jr); ++count; ++k; }
  for (; k <= (long)NREFILL - 12; k += 12) { unsigned long bi = 0, bj = 7; for (int t = 0; t < 12; ++t) { __verif_check(bi == (j + count) % 12); ref_step(x, c, bi, bj); ++count; } }
  for (; k < (long)NREFILL; ++k) { __verif_check(ir == (j + count) % 12); ref_step(x, c, ir, jr); ++count; }
  __verif_check(count == NREFILL);
  compare(g, x, c);
  __verif_check(g._ir == (j + NREFILL) % 12 && g._ir_old == g._ir && g._jr == (j + 8 + NREFILL) % 12 && g._pr == NREFILL);
}
// R5: a draw from a valid state returns a state word in [0,1); the integer draw is in [0,2^31)
__attribute__((noinline)) void h_r_draw(void) {
  alignas(8) unsigned char buf[sizeof(RandomGenerator)]; double x[12], c;
  RandomGenerator &g = sym_state(buf, x, c);
  unsigned long ir = __verif_fork_u(0, 11);
  g._ir = ir; g._jr = (ir + 8) % 12; g._ir_old = 0; g._pr = 12;        // luxury 12 keeps the refill (when triggered) to one block: the step lemmas cover p=397
  double u = g.get_uniform_random_double();
  __verif_check(u >= 0. && u < 1.);
  __verif_check(u == g._xdbl[g._ir] && g._ir == (ir + 1) % 12);
  check_valid_draw:
  __verif_check(g._carry == 0. || g._carry == EPS);
}
// R4: restart pair
__attribute__((noinline)) void h_r_restart(void) {
  alignas(8) unsigned char buf[sizeof(RandomGenerator)];
  RandomGenerator &g = *reinterpret_cast<RandomGenerator *>(buf);
  for (int i = 0; i < 12; ++i) g._xdbl[i] = nondet_double();
  g._carry = nondet_double(); g._ir = nondet_ulong(); g._jr = nondet_ulong(); g._ir_old = nondet_ulong(); g._pr = nondet_ulong();
  verif_tape_wpos = verif_tape_rpos = 0;
  RestartWriter w; g.write_restart_file(w); int n1 = verif_tape_wpos;
  RestartReader r; RandomGenerator g2(r);
  __verif_check(verif_tape_rpos == n1 && n1 == 17);
  for (int i = 0; i < 12; ++i) __verif_check(g2._xdbl[i] == g._xdbl[i]);
  __verif_check(g2._carry == g._carry && g2._ir == g._ir && g2._jr == g._jr && g2._ir_old == g._ir_old && g2._pr == g._pr);
  g2.write_restart_file(w);
  __verif_check(verif_tape_wpos == 2 * n1);
  for (int k = 0; k < 17; ++k) { __verif_check(verif_tape_tag[k] == verif_tape_tag[n1 + k]); __verif_check(verif_tape_u[k] == verif_tape_u[n1 + k]); __verif_check(verif_tape_d[k] == verif_tape_d[n1 + k]); }
}
// R3: seeding, every seed (symbolic 64-bit argument): equals the reference initialisation (Luescher's rlxd_init transcribed), 0 -> 1, only the low 31 bits count
static inline void ref_seed(long seed, double *x) {
  long xbit[31]; if (seed == 0) seed = 1; long i = seed & 0x7FFFFFFFL;
  for (int k = 0; k < 31; ++k) { xbit[k] = i % 2; i /= 2; }
  int ibit = 0, jbit = 18;
  for (int k = 0; k < 12; ++k) {
    double v = 0;
    for (int m = 1; m <= 48; ++m) { double y = (double)((xbit[ibit] + 1) % 2); v += v + y; xbit[ibit] = (xbit[ibit] + xbit[jbit]) % 2; ibit = (ibit + 1) % 31; jbit = (jbit + 1) % 31; }
    x[k] = EPS * v;
  }
}
__attribute__((noinline)) void h_r_seed(void) {
  alignas(8) unsigned char buf[sizeof(RandomGenerator)];
  RandomGenerator &g = *reinterpret_cast<RandomGenerator *>(buf);
  long seed = nondet_long();
  g.set_seed(seed);
  double x[12]; ref_seed(seed, x);
  for (int k = 0; k < 12; ++k) { __verif_check(g._xdbl[k] == x[k]); __verif_check(g._xdbl[k] >= 0. && g._xdbl[k] < 1.); }
  __verif_check(g._carry == 0. && g._ir == 11 && g._jr == 7 && g._ir_old == 0 && g._pr == 397);
  // only the low 31 bits count: the reference initialisation above is a function of (seed & 0x7FFFFFFF), so equality with it already says so; seed 0 is seed 1:
  if (seed == 0) {
    alignas(8) unsigned char buf2[sizeof(RandomGenerator)]; RandomGenerator &g2 = *reinterpret_cast<RandomGenerator *>(buf2);
    g2.set_seed(1);
    for (int k = 0; k < 12; ++k) __verif_check(g2._xdbl[k] == g._xdbl[k]);
  }
}
uint64_t tv_stream(const uint64_t *in) {
  RandomGenerator g((int_fast32_t)(in[0] & 0xffff)); unsigned n = 1 + (in[1] % 40); double u = 0; uint64_t h = 0;
  for (unsigned k = 0; k < n; ++k) { u = g.get_uniform_random_double(); uint64_t b; __builtin_memcpy(&b, &u, 8); h = h * 31 + b; }
  return h;
}
}
