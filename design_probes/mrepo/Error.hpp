#pragma once
extern "C" void __verif_error(void) __attribute__((noreturn));
#define cmac_error(s, ...) { __verif_error(); }
#define cmac_warning(s, ...) {}
