#!/bin/sh
# runs every registered quick (or $1=thorough) check on the current tree; prints one line per property
TIER=${1:-quick}
cd "$(dirname "$0")/.."
for id in $(python3 -c "import json; print(' '.join(c['property_id'] for c in json.load(open('MANIFEST.json'))['checks']))"); do
  s=$(date +%s); out=$(./check $id --tier $TIER 2>&1 | grep -E "^(OK|VIOLATION|KNOWN-FINDING|BROKEN)" | cut -c1-160 | tr '\n' '|'); rc=$?
  echo "$id $(( $(date +%s) - s ))s $out"
done
