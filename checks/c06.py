import os, sys
from vlib import *

def harnesses(tier):
    cf = ['-fopenmp']
    return [BHarness('I1_hydrogen_range', 'c06_ion.cpp', 'h_i1_hydrogen', cflags=cf, strict=True, timeout=900,
                what='hydrogen-only closed form: the neutral fraction returned is in [1e-14, 1] for every positive recombination rate, flux and density (sign reasoning: cc = sqrt(bb+1) >= 1, so 1 + aa*(1-cc) <= 1), and exactly 1 for zero flux or zero density',
                bound='alphaH, jH, nH symbolic reals: positive within [2^-100,2^100], jH and nH may be exactly 0; loop-free'),
            BHarness('I1_monotone_taylor', 'c06_ion.cpp', 'h_i1_monotone_taylor', cflags=cf, strict=True, monotone=True, timeout=900,
                what='in the large-flux (Taylor) branch the neutral fraction is weakly decreasing in the radiation field (every rounded operation on the path is monotone)', bound='both evaluations in the bb < 1e-10 branch; symbolic positive inputs')]

def run(tier, only=None):
    ev = Evidence('C06', tier); work = Work('C06')
    ev.assumptions += ['IEEE-UF sign/monotonicity axioms (theorems of binary64 RNE on finite values); stated domain [2^-100,2^100]']
    ev.outside += ['coupled H/He fixed point (exp, pow, <= 20 iterations, abort on non-convergence)', 'metal stage normalisation I2', 'TemperatureCalculator (tables from files, secant iteration)', 'monotonicity outside the Taylor branch (cancellation: holds only up to round-off)', '"solves the balance equation" (real-number residual)']
    try:
        hb = [h for h in harnesses(tier) if not only or h.name.startswith(only)]
        violations, broken = run_engine_b('C06', tier, hb, ev, work)
    except Broken as b:
        violations, broken = [], [str(b)]
    work.clean()
    finish(ev, violations, '; '.join(broken) if broken else None)

def replay(path): return generic_replay(path, harnesses('thorough'))
