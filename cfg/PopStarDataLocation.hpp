/*******************************************************************************
 * This file is part of CMacIonize
 * Copyright (C) 2020 Bert Vandenbroucke (bert.vandenbroucke@gmail.com)
 *
 * CMacIonize is free software: you can redistribute it and/or modify
 * it under the terms of the GNU Affero General Public License as published by
 * the Free Software Foundation, either version 3 of the License, or
 * (at your option) any later version.
 *
 * CMacIonize is distributed in the hope that it will be useful,
 * but WITOUT ANY WARRANTY; without even the implied warranty of
 * MERCHANTABILITY or FITNESS FOR A PARTICULAR PURPOSE. See the
 * GNU Affero General Public License for more details.
 *
 * You should have received a copy of the GNU Affero General Public License
 * along with CMacIonize. If not, see <http://www.gnu.org/licenses/>.
 ******************************************************************************/

/**
 * @file PopStarDataLocation.hpp
 *
 * @brief CMake configured file storing the location of the PopStar stellar
 * models spectra folder on the local system.
 *
 * This file should never be edited directly. Instead, edit
 * PopStarDataLocation.hpp.in.
 *
 * @author Bert Vandenbroucke (bert.vandenbroucke@ugent.be)
 */
#ifndef POPSTARDATALOCATION_HPP
#define POPSTARDATALOCATION_HPP

#define POPSTARDATALOCATION "/repo/_build/data/PopStar/"

#endif // POPSTARDATALOCATION_HPP
