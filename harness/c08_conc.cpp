// C08: REAL AtomicValue / ThreadLock / ThreadSafeVector / TaskQueue / Task / MemorySpace / LockFree operations.
// Threads are emitted as step machines (A-seq): one atomic operation per scheduled step, schedule nondeterministic.
#include "ThreadSafeVector.hpp"
#include "TaskQueue.hpp"
#include "Task.hpp"
#include "ThreadLock.hpp"
#include "LockFree.hpp"
extern "C" {
#ifndef NSLOT
#define NSLOT 3
#endif
typedef ThreadSafeVector<Task> TSV;
alignas(8) unsigned char vbuf[sizeof(TSV)]; AtomicValue<bool> slot_lock[NSLOT]; alignas(8) unsigned char taskbuf[NSLOT * sizeof(Task)];
unsigned long got[3]; unsigned long held_j; int init_taken;
static inline TSV *vec(void) { return reinterpret_cast<TSV *>(vbuf); }
static inline Task *tasks(void) { return reinterpret_cast<Task *>(taskbuf); }
// arbitrary VALID pool state: flags arbitrary, occupancy counter == number of flags set, cursor arbitrary (wrap-around included)
static inline void pool_setup(int min_free) {
  TSV *v = vec(); const_cast<size_t &>(v->_size) = NSLOT; v->_vector = tasks(); v->_locks = slot_lock;
  int taken = 0; for (int i = 0; i < NSLOT; ++i) { bool l = nondet_uchar() & 1; slot_lock[i].set(l); taken += l; }
  __CPROVER_assume(NSLOT - taken >= min_free);
  v->_number_taken.set(taken); v->_current_index.set(nondet_ulong()); v->_max_number_taken.set(taken); v->_total_number_taken.set(nondet_ulong());
  init_taken = taken; got[0] = got[1] = got[2] = 999;
}
static inline int flags_set(void) { int n = 0; for (int i = 0; i < NSLOT; ++i) n += slot_lock[i].value(); return n; }
// ---- P1: get || get
__attribute__((noinline)) void p1_t0(void) { got[0] = vec()->get_free_element_safe(); }
__attribute__((noinline)) void p1_t1(void) { got[1] = vec()->get_free_element_safe(); }
__attribute__((noinline)) void p1_t2(void) { got[2] = vec()->get_free_element_safe(); }
__attribute__((noinline)) void p1_setup(void) { pool_setup(PMINFREE); }
__attribute__((noinline)) void p1_post(void) {
  int succ = 0;
  for (int k = 0; k < NTHR; ++k) { __verif_check(got[k] <= NSLOT); if (got[k] < NSLOT) { ++succ; __verif_check(slot_lock[got[k]].value()); } }
  for (int a = 0; a < NTHR; ++a) for (int b = a + 1; b < NTHR; ++b) __verif_check(got[a] != got[b] || got[a] == NSLOT);   // never the same slot to two owners
  __verif_check((int)vec()->_number_taken.value() == init_taken + succ);                                               // occupancy == slots held at quiescence
  __verif_check(flags_set() == init_taken + succ);
  if (NSLOT - init_taken >= NTHR) __verif_check(succ == NTHR);                                                          // enough free slots: nobody is refused
}
// ---- P2: get || free(j)
__attribute__((noinline)) void p2_t0(void) { got[0] = vec()->get_free_element_safe(); }
__attribute__((noinline)) void p2_t1(void) { vec()->free_element(held_j); }
__attribute__((noinline)) void p2_setup(void) { pool_setup(0); held_j = nondet_ulong(); __CPROVER_assume(held_j < NSLOT && slot_lock[held_j].value()); }
__attribute__((noinline)) void p2_post(void) {
  __verif_check(got[0] <= NSLOT);
  int succ = got[0] < NSLOT;
  if (succ) __verif_check(slot_lock[got[0]].value());
  __verif_check((int)vec()->_number_taken.value() == init_taken - 1 + succ);
  __verif_check(flags_set() == init_taken - 1 + succ);
  if (got[0] != held_j) __verif_check(!slot_lock[held_j].value());                                                       // the released slot is free again unless the getter took it
  if (init_taken < NSLOT) __verif_check(succ);                                                                          // a free slot existed all along: the getter is served
}
// ---- A1: atomic counters and locks
AtomicValue<size_t> ctr; size_t ret0, ret1, c0; AtomicValue<bool> flag; bool lk0, lk1;
__attribute__((noinline)) void a1_inc0(void) { ret0 = ctr.pre_increment(); }
__attribute__((noinline)) void a1_inc1(void) { ret1 = ctr.post_add(3); }
__attribute__((noinline)) void a1_setup(void) { c0 = nondet_ulong(); ctr.set(c0); }
__attribute__((noinline)) void a1_post(void) { __verif_check(ctr.value() == c0 + 4); __verif_check(ret0 != ret1 + 3 || true); __verif_check((ret0 == c0 + 1 && ret1 == c0 + 1) || (ret0 == c0 + 4 && ret1 == c0)); }
size_t m0, m1;
__attribute__((noinline)) void a2_max0(void) { ctr.max(m0); }
__attribute__((noinline)) void a2_max1(void) { ctr.max(m1); }
__attribute__((noinline)) void a2_setup(void) { c0 = nondet_ulong(); m0 = nondet_ulong(); m1 = nondet_ulong(); ctr.set(c0); }
__attribute__((noinline)) void a2_post(void) { size_t e = c0 > m0 ? c0 : m0; e = e > m1 ? e : m1; __verif_check(ctr.value() == e); }
__attribute__((noinline)) void a3_lock0(void) { lk0 = flag.lock(); }
__attribute__((noinline)) void a3_lock1(void) { lk1 = flag.lock(); }
__attribute__((noinline)) void a3_setup(void) { bool f = nondet_uchar() & 1; flag.set(f); c0 = f; }
__attribute__((noinline)) void a3_post(void) { __verif_check(!(lk0 && lk1)); __verif_check(flag.value()); if (!c0) __verif_check(lk0 || lk1); else __verif_check(!lk0 && !lk1); }
// ---- L1: lock_dependency with the two locks in opposite roles
ThreadLock la, lb; alignas(8) unsigned char tb0[sizeof(Task)], tb1[sizeof(Task)]; bool r0, r1;
static inline Task *T0(void) { return reinterpret_cast<Task *>(tb0); } static inline Task *T1(void) { return reinterpret_cast<Task *>(tb1); }
__attribute__((noinline)) void l1_t0(void) { r0 = T0()->lock_dependency(); }
__attribute__((noinline)) void l1_t1(void) { r1 = T1()->lock_dependency(); }
__attribute__((noinline)) void l1_setup(void) {
  bool a = nondet_uchar() & 1, b = nondet_uchar() & 1; la._lock.set(a); lb._lock.set(b); lk0 = a; lk1 = b;
  T0()->_dependency[0] = &la; T0()->_dependency[1] = (nondet_uchar() & 1) ? &lb : nullptr;
  T1()->_dependency[0] = &lb; T1()->_dependency[1] = (nondet_uchar() & 1) ? &la : nullptr;
}
__attribute__((noinline)) void l1_post(void) {
  const bool two0 = T0()->_dependency[1] != nullptr, two1 = T1()->_dependency[1] != nullptr;
  // a successful task holds all its locks; a failed attempt left no lock behind (rollback): every lock is held iff it was held before or a winner owns it
  bool own_a = (r0) || (r1 && two1), own_b = (r1) || (r0 && two0);
  __verif_check(la._lock.value() == (lk0 || own_a));
  __verif_check(lb._lock.value() == (lk1 || own_b));
  __verif_check(!(r0 && r1 && (two0 || two1)));                                  // sharing a lock: at most one succeeds
  if (lk0) __verif_check(!r0 && !(r1 && two1));
  if (lk1) __verif_check(!r1 && !(r0 && two0));
}
// ---- Q1/Q2: TaskQueue
#define QCAP 4
#ifndef QMAX
#define QMAX 3
#endif
alignas(8) unsigned char qbuf[sizeof(TaskQueue)]; size_t qarr[QCAP]; unsigned long q0[QCAP]; unsigned long qn0; ThreadLock dep[2];
static inline TaskQueue *Q(void) { return reinterpret_cast<TaskQueue *>(qbuf); }
static inline void queue_setup(void) {
  pool_setup(0);
  TaskQueue *q = Q(); q->_queue = qarr; const_cast<size_t &>(q->_size) = QCAP; q->_queue_lock._lock.set(false);
  qn0 = nondet_ulong(); __CPROVER_assume(qn0 <= QMAX); q->_current_queue_size = qn0;
  for (int k = 0; k < QCAP; ++k) { unsigned long t = nondet_ulong(); __CPROVER_assume(t < NSLOT); qarr[k] = t; q0[k] = t; }
  __CPROVER_assume(qn0 < 2 || q0[0] != q0[1]); __CPROVER_assume(qn0 < 3 || (q0[0] != q0[2] && q0[1] != q0[2]));      // an index is queued at most once
  for (unsigned k = 0; k < qn0; ++k) __CPROVER_assume(slot_lock[q0[k]].value());                                         // queued tasks are live slots
  dep[0]._lock.set(nondet_uchar() & 1); dep[1]._lock.set(nondet_uchar() & 1); lk0 = dep[0]._lock.value(); lk1 = dep[1]._lock.value();
#ifdef NODEPS
  for (int i = 0; i < NSLOT; ++i) { tasks()[i]._dependency[0] = nullptr; tasks()[i]._dependency[1] = nullptr; }
#else
  for (int i = 0; i < NSLOT; ++i) { unsigned char c = nondet_uchar(); tasks()[i]._dependency[0] = (c & 1) ? &dep[0] : ((c & 2) ? &dep[1] : nullptr); tasks()[i]._dependency[1] = nullptr; }
#endif
}
__attribute__((noinline)) void q1_t0(void) { got[0] = Q()->get_task(*vec()); }
__attribute__((noinline)) void q1_t1(void) { got[1] = Q()->TRYGET(*vec()); }
__attribute__((noinline)) void qs_t0(void) { got[1] = Q()->TRYGET(*vec()); }
__attribute__((noinline)) void q1_setup(void) { queue_setup(); got[0] = got[1] = NO_TASK; }
static inline bool in_q0(unsigned long t) { for (unsigned k = 0; k < qn0; ++k) if (q0[k] == t) return true; return false; }
__attribute__((noinline)) void q1_post(void) {
  TaskQueue *q = Q(); int succ = 0;
  for (int k = 0; k < 2; ++k) if (got[k] != NO_TASK) { ++succ; __verif_check(in_q0(got[k])); ThreadLock *d = tasks()[got[k]]._dependency[0]; if (d) __verif_check(d->_lock.value()); }
  __verif_check(got[0] == NO_TASK || got[0] != got[1]);                            // never the same task to two threads
  if (got[0] != NO_TASK && got[1] != NO_TASK) { ThreadLock *d0 = tasks()[got[0]]._dependency[0], *d1 = tasks()[got[1]]._dependency[0]; __verif_check(d0 == nullptr || d0 != d1); }   // exclusive ownership of the declared resource
  __verif_check(q->_current_queue_size == qn0 - succ);
  // the remaining entries are exactly the not-handed-out ones, in their original order
  unsigned w = 0; for (unsigned k = 0; k < qn0; ++k) { if (q0[k] == got[0] || q0[k] == got[1]) continue; __verif_check(qarr[w] == q0[k]); ++w; }
  __verif_check(!q->_queue_lock._lock.value());
  // liveness within the bound: a queued task whose resource nobody holds (before and after) has been handed out by the blocking getter
  for (unsigned k = 0; k < qn0; ++k) { ThreadLock *d = tasks()[q0[k]]._dependency[0]; bool was_free = (d == nullptr) || (d == &dep[0] ? !lk0 : !lk1); if (was_free && got[0] == NO_TASK) __verif_check(got[1] != NO_TASK); }   // a lockable queued task is handed out
}
__attribute__((noinline)) void q1_post_try(void) {
  TaskQueue *q = Q(); int succ = (got[0] != NO_TASK) + (got[1] != NO_TASK);
  for (int k = 0; k < 2; ++k) if (got[k] != NO_TASK) __verif_check(in_q0(got[k]));
  __verif_check(got[0] == NO_TASK || got[0] != got[1]);
  __verif_check(q->_current_queue_size == qn0 - succ);
  __verif_check(!q->_queue_lock._lock.value());
  if (qn0 == 1) __verif_check(got[0] != NO_TASK || got[1] != NO_TASK);        // the blocking getter always gets the entry if the try-getter did not
}
unsigned long addv;
__attribute__((noinline)) void q2_t0(void) { Q()->add_task(addv); }
__attribute__((noinline)) void q2_t1(void) { got[1] = Q()->get_task(*vec()); }
__attribute__((noinline)) void q2_setup(void) { queue_setup(); got[0] = got[1] = NO_TASK; addv = nondet_ulong(); __CPROVER_assume(addv < NSLOT && !in_q0(addv) && slot_lock[addv].value()); }
__attribute__((noinline)) void q2_post(void) {
  TaskQueue *q = Q(); int succ = got[1] != NO_TASK;
  __verif_check(q->_current_queue_size == qn0 + 1 - succ);
  if (succ) __verif_check(in_q0(got[1]) || got[1] == addv);
  unsigned w = 0; for (unsigned k = 0; k < qn0; ++k) { if (q0[k] == got[1]) continue; __verif_check(qarr[w] == q0[k]); ++w; }
  if (got[1] != addv) __verif_check(qarr[w] == addv);                              // no lost or duplicated entry
  __verif_check(!q->_queue_lock._lock.value());
}
// ---- LF: LockFree::add on a double loses no update (two adders of small integers: sums exact)
double acc; double d0v, d1v;
__attribute__((noinline)) void lf_t0(void) { LockFree::add(acc, d0v); }
__attribute__((noinline)) void lf_t1(void) { LockFree::add(acc, d1v); }
__attribute__((noinline)) void lf_setup(void) { acc = (double)(nondet_uchar() & 15); d0v = (double)(nondet_uchar() & 15); d1v = (double)(nondet_uchar() & 15); c0 = (size_t)(acc + d0v + d1v); }
__attribute__((noinline)) void lf_post(void) { __verif_check(acc == (double)c0); }
}
