import os, sys
from vlib import *

def post_exact(E, out):
    """A7 side conditions: every addition executed exactly must have a representable result: multiple of 2^-48 with |t| < 32 (<= 53 significant bits)"""
    import z3, irz
    seen = set()
    for (a, b, t, cond) in E.fp.exact_obl:
        if t.get_id() in seen: continue
        seen.add(t.get_id())
        E.obligations.append(('A7 side condition: exact sum n/2^q has |n| <= 2^53 (representable)', cond))
    out['exact_obl'] += len(seen)

def post_refill(E, out):
    """store sequence of the 397-step refill: x[(j+t) mod 12] for t = 0..396, nothing else"""
    marks = getattr(E, 'marks', []); pos = getattr(E, 'mark_pos', [])
    if len(marks) < 2 or not isinstance(marks[0], tuple):
        E.obligations.append(('refill window marked', False)); return
    obj = marks[0][0]
    seq = [off // 8 for (o, off, sz) in E.store_log[pos[0]:pos[1]] if o == obj and isinstance(off, int) and off < 96]
    j0 = seq[0] if seq else -1
    ok = len(seq) == 397 and all(seq[t] == (j0 + t) % 12 for t in range(397))
    E.obligations.append(('refill performs exactly 397 steps on x[(j+t) mod 12] (got %d stores, first %s)' % (len(seq), seq[:3]), ok))

def harnesses(tier):
    H = []
    ex = dict(exact_add=True)
    groups = [(1, 4), (5, 8), (9, 11)]
    for lo, hi in groups:
        H.append(BHarness('R1_head_j%d_%d' % (lo, hi), 'c13_rg.cpp', 'h_r_head', defs=['JLO=%d' % lo, 'JHI=%d' % hi, 'NTAIL=1', 'NREFILL=397'], post=post_exact, timeout=900, **ex,
            what='head loop of increment_state from entry index j (any lag index, any carry, any 12 words k/2^48): post-state == 12-j reference subtract-with-borrow steps; words stay multiples of 2^-48 in [0,1), carry in {0,2^-48}; every FP add/sub on the way is exact (A7 side condition proved)',
            bound='j in [%d,%d] x jr in 0..11 x carry in {0,eps} enumerated, 12 state words symbolic integers in [0,2^48)' % (lo, hi)))
    H.append(BHarness('R2_mid', 'c13_rg.cpp', 'h_r_mid', defs=['JLO=1', 'JHI=1', 'NTAIL=1', 'NREFILL=397'], post=post_exact, timeout=900, **ex,
        what='the unrolled 12-step block of increment_state == 12 reference steps with lags (i, i+7); validity preserved; all FP ops exact', bound='carry x jr enumerated, 12 words symbolic'))
    for nt in ((1, 2) if tier == 'quick' else (1, 2, 5, 11)):
        H.append(BHarness('R2_tail_n%d' % nt, 'c13_rg.cpp', 'h_r_tail', defs=['JLO=1', 'JHI=1', 'NTAIL=%d' % nt, 'NREFILL=397'], post=post_exact, timeout=900, **ex,
            what='%d pass(es) of the tail loop == reference steps' % nt, bound='carry x jr enumerated, 12 words symbolic'))
    for p in ((397, 13, 25) if tier == 'quick' else (397, 11, 12, 13, 23, 24, 25, 36, 37)):
        for lo, hi in ([(0, 1), (2, 3), (4, 5), (6, 7), (8, 9), (10, 11)] if p > 100 else [(0, 5), (6, 11)]):
            H.append(BHarness('R1p_refill_p%d_j%d_%d' % (p, lo, hi), 'c13_rg.cpp', 'h_r_refill', defs=['JLO=%d' % lo, 'JHI=%d' % hi, 'NTAIL=1', 'NREFILL=%d' % p], timeout=900, maxsteps=3000000, **ex,
                what='with luxury p=%d%s the real control flow of increment_state performs exactly the p reference steps on x[(j+t) mod 12], t=0..p-1 (head+blocks+tail tile without gap or overlap): final 12 words and carry equal the reference, final indices (j+p) mod 12' % (p, ' (shipped)' if p == 397 else ''),
                bound='entry index j in [%d,%d], carry enumerated, data symbolic; control flow is data independent (borrow handling is select, not branch)' % (lo, hi)))
    H.append(BHarness('R5_draw', 'c13_rg.cpp', 'h_r_draw', defs=['JLO=1', 'JHI=1', 'NTAIL=1', 'NREFILL=397'], post=post_exact, timeout=900, **ex,
        what='get_uniform_random_double from any valid state returns the next state word, 0 <= u < 1 (so -log(u) is never zero or negative; u == 0 is a legal RANLUX output)', bound='index 0..11 x carry enumerated, words symbolic; refill with luxury 12'))
    H.append(BHarness('R4_restart', 'c13_rg.cpp', 'h_r_restart', defs=['JLO=1', 'JHI=1', 'NTAIL=1', 'NREFILL=397'], what='write_restart_file -> tape -> restart constructor restores all 17 words; rewrite gives the same tape', bound='all 17 words symbolic'))
    H.append(BHarness('R3_seed', 'c13_rg.cpp', 'h_r_seed', defs=['JLO=1', 'JHI=1', 'NTAIL=1', 'NREFILL=397'], timeout=600, maxsteps=3000000, solver_timeout_ms=60000, **ex,
        what='set_seed for EVERY 64-bit seed argument: state equals the reference initialisation (shift register b[n+31]=b[n]^b[n+18], 48 complemented bits per word), words in [0,1), carry 0, indices (11,7,0), luxury 397',
        bound='seed symbolic (64 bit); 31 + 12x48 loop iterations executed with concrete control'))
    return H

def run(tier, only=None):
    ev = Evidence('C13', tier); work = Work('C13')
    ev.assumptions += ['A7: binary64 add/sub of multiples of 2^-48 with |result| < 32 is exact (<=53 significant bits); the side condition is an obligation on every executed add/sub',
                       'reference = subtract-with-borrow recurrence x[ir] <- x[jr]-x[ir]-c (mod 1) base 2^48 and the shift-register initialisation, transcribed in the harness from the ranlxd2/GSL description; no copy of the original C file is available offline',
                       'valid state = 12 words k/2^48 (0<=k<2^48), carry in {0,2^-48}, indices < 12 (established by R3, preserved by R1/R2: inductive over all stream positions)']
    ev.outside += ['byte-identical snapshots of two whole runs', 'statistical quality of the stream', 'equality with the published ranlxd2 stream beyond the transcribed reference']
    try:
        tv_run_b(work, 'c13_rg.cpp', [('tv_stream', 2)], ev, defs=['JLO=1', 'JHI=1', 'NTAIL=1', 'NREFILL=397'], nvec=12)
        hb = [h for h in harnesses(tier) if not only or h.name.startswith(only)]
        violations, broken = run_engine_b('C13', tier, hb, ev, work)
    except Broken as b:
        violations, broken = [], [str(b)]
    work.clean()
    finish(ev, violations, '; '.join(broken) if broken else None)

def replay(path): return generic_replay(path, [])
