// C03-T1: direction tables of the REAL TravelDirections.hpp against an independent arithmetic reference.
#include "TravelDirections.hpp"
// reference: sign (+1 upper wall, -1 lower wall, 0 not on a wall) per axis, derived from the enum *names*
// by index arithmetic (corners 1..8 = 3 bits x,y,z with 0=P; edges 9..20 = axis + 2 bits; faces 21..26 = axis*2 + N)
static inline void ref_signs(int c, int s[3]) {
  s[0] = s[1] = s[2] = 0;
  if (c >= 1 && c <= 8) { int k = c - 1; s[0] = (k & 4) ? -1 : 1; s[1] = (k & 2) ? -1 : 1; s[2] = (k & 1) ? -1 : 1; }
  else if (c >= 9 && c <= 20) { int a = (c - 9) / 4, k = (c - 9) % 4; int u = (k & 2) ? -1 : 1, v = (k & 1) ? -1 : 1;
    if (a == 0) { s[1] = u; s[2] = v; } else if (a == 1) { s[0] = u; s[2] = v; } else { s[0] = u; s[1] = v; } }
  else if (c >= 21 && c <= 26) { int a = (c - 21) / 2; s[a] = ((c - 21) & 1) ? -1 : 1; }
}
static inline bool ref_compat(const double d[3], const int s[3], int flip) {
  for (int a = 0; a < 3; ++a) {
    int w = s[a] * flip;
    if (w > 0 && !(d[a] > 0.)) return false;
    if (w < 0 && !(d[a] < 0.)) return false;
  }
  return true;
}
extern "C" {
__attribute__((noinline)) void h_t1_tables(void) {
  int_fast32_t c = nondet_int(); __CPROVER_assume(c >= 0 && c < TRAVELDIRECTION_NUMBER);
  int_fast32_t i = TravelDirections::output_to_input_direction(c);
  __verif_check(i >= 0 && i < TRAVELDIRECTION_NUMBER);
  __verif_check(TravelDirections::output_to_input_direction(i) == c);          // involution
  int sc[3], si[3]; ref_signs(c, sc); ref_signs(i, si);
  __verif_check(si[0] == -sc[0] && si[1] == -sc[1] && si[2] == -sc[2]);          // face->opposite face etc.
  double d[3] = {nondet_double(), nondet_double(), nondet_double()};
  CoordinateVector<> dv(d[0], d[1], d[2]);                                      // NaN components allowed
  bool oc = TravelDirections::is_compatible_output_direction(dv, c);
  bool ic = TravelDirections::is_compatible_input_direction(dv, i);
  __verif_check(oc == ic);
  __verif_check(oc == ref_compat(d, sc, 1));
  __verif_check(TravelDirections::is_compatible_input_direction(dv, c) == ref_compat(d, sc, -1));
}
__attribute__((noinline)) void h_t1_mask(void) {
  int_fast32_t mask = nondet_int(); __CPROVER_assume(mask >= 0 && mask < 64);
  int_fast32_t o = TravelDirections::get_output_direction(mask);
  bool legal = ((mask & 48) != 48) && ((mask & 12) != 12) && ((mask & 3) != 3);
  __verif_check((o >= 0) == legal);
  __verif_check(o >= -1 && o < TRAVELDIRECTION_NUMBER);
  if (o >= 0) {
    int s[3]; ref_signs(o, s);
    __verif_check(s[0] == ((mask & 32) ? 1 : (mask & 16) ? -1 : 0));
    __verif_check(s[1] == ((mask & 8) ? 1 : (mask & 4) ? -1 : 0));
    __verif_check(s[2] == ((mask & 2) ? 1 : (mask & 1) ? -1 : 0));
  }
  int_fast32_t mask2 = nondet_int(); __CPROVER_assume(mask2 >= 0 && mask2 < 64);
  int_fast32_t o2 = TravelDirections::get_output_direction(mask2);
  if (o >= 0 && o2 >= 0 && mask != mask2) __verif_check(o != o2);             // injective on legal masks
}
// translation-validation entry points (pure functions of the input words)
uint64_t tv_o2i(const uint64_t *in) { int c = (int)(in[0] % 27); return (uint64_t)TravelDirections::output_to_input_direction(c); }
uint64_t tv_mask(const uint64_t *in) { return (uint64_t)(int64_t)TravelDirections::get_output_direction((int)(in[0] % 64)); }
uint64_t tv_compat(const uint64_t *in) {
  double d[3]; for (int k = 0; k < 3; ++k) { uint64_t u = in[k]; __builtin_memcpy(&d[k], &u, 8); }
  CoordinateVector<> dv(d[0], d[1], d[2]); int c = (int)(in[3] % 27);
  return (uint64_t)TravelDirections::is_compatible_output_direction(dv, c) * 2 + (uint64_t)TravelDirections::is_compatible_input_direction(dv, c);
}
}
