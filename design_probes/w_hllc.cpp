#include "HLLCRiemannSolver.hpp"
#include "DensitySubGrid.hpp"
extern "C" {
__attribute__((noinline)) void hllc_flux(const HLLCRiemannSolver *s, double rhoL,const double*uL,double PL,double rhoR,const double*uR,double PR,double*m,double*p,double*E,const double*n,const double*vf){
  CoordinateVector<> pf; s->HLLCRiemannSolver::solve_for_flux(rhoL,CoordinateVector<>(uL[0],uL[1],uL[2]),PL,rhoR,CoordinateVector<>(uR[0],uR[1],uR[2]),PR,*m,pf,*E,CoordinateVector<>(n[0],n[1],n[2]),CoordinateVector<>(vf[0],vf[1],vf[2])); p[0]=pf[0];p[1]=pf[1];p[2]=pf[2]; }
__attribute__((noinline)) int sg_interact(DensitySubGrid *g, PhotonPacket *p, int_fast32_t dir){ return g->interact(*p,dir);} 
}
