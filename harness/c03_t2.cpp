// C03-T2: hand-over bookkeeping of the REAL DensitySubGrid: entering through classification c snaps exactly the fixed axes
// to the wall of THAT axis and starts in the matching boundary cell; exit classification of interact's final position is C02.
#include "DensitySubGrid.hpp"
union UG { DensitySubGrid g; UG() {} ~UG() {} };
UG g_ug;
extern "C" {
static inline void ref_signs(int c, int s[3]) {
  s[0] = s[1] = s[2] = 0;
  if (c >= 1 && c <= 8) { int k = c - 1; s[0] = (k & 4) ? -1 : 1; s[1] = (k & 2) ? -1 : 1; s[2] = (k & 1) ? -1 : 1; }
  else if (c >= 9 && c <= 20) { int a = (c - 9) / 4, k = (c - 9) % 4; int u = (k & 2) ? -1 : 1, v = (k & 1) ? -1 : 1; if (a == 0) { s[1] = u; s[2] = v; } else if (a == 1) { s[0] = u; s[2] = v; } else { s[0] = u; s[1] = v; } }
  else if (c >= 21 && c <= 26) { int a = (c - 21) / 2; s[a] = ((c - 21) & 1) ? -1 : 1; }
}
__attribute__((noinline)) void h_t2_entry(void) {
  DensitySubGrid &g = g_ug.g;
  int n[3]; double cs[3], inv[3], p0[3];
  for (int k = 0; k < 3; ++k) { n[k] = nondet_int(); __CPROVER_assume(n[k] >= 1 && n[k] <= 1024); cs[k] = nondet_double(); inv[k] = nondet_double(); p0[k] = nondet_double(); __CPROVER_assume(cs[k] > 0. && inv[k] > 0. && p0[k] >= 0. && p0[k] * inv[k] < 0x1p31);
    g._number_of_cells[k] = n[k]; g._cell_size[k] = cs[k]; g._inv_cell_size[k] = inv[k]; }
  g._number_of_cells[3] = n[1] * n[2];
  const int c = (int)__verif_fork_u(0, 26);                                   // entry classification: one path family per value
  int s[3]; ref_signs(c, s);
  CoordinateVector<> pos(p0[0], p0[1], p0[2]);
  g.update_photon_position(c, pos);
  for (int k = 0; k < 3; ++k) {
    if (s[k] > 0) __verif_check(pos[k] == n[k] * cs[k]);                       // on the upper wall OF THIS AXIS
    else if (s[k] < 0) __verif_check(pos[k] == 0.);                            // on the lower wall
    else __verif_check(pos[k] == p0[k]);                                       // free axes keep their coordinate
  }
  const int_fast32_t ix = g.get_x_index(pos[0], c), iy = g.get_y_index(pos[1], c), iz = g.get_z_index(pos[2], c);
  const int_fast32_t idx[3] = {ix, iy, iz};
  for (int k = 0; k < 3; ++k) {
    if (s[k] > 0) __verif_check(idx[k] == n[k] - 1);                           // entered through the upper wall: last cell
    else if (s[k] < 0) __verif_check(idx[k] == 0);
    else __verif_check(idx[k] == (int_fast32_t)(pos[k] * inv[k]));                      // free axis: computed from the coordinate
  }
}
}
