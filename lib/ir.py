#!/usr/bin/env python3
"""irlift front end: parser for the LLVM-14 textual IR subset clang++ -O1 emits for the harness TUs.
Shared by irc (IR -> C for cbmc) and irz (IR -> z3 symbolic executor)."""
import re, sys, struct

# ---------------------------------------------------------------- types
class T:
    pass
class IntT(T):
    def __init__(s, b): s.bits = b
    def __repr__(s): return 'i%d' % s.bits
class DblT(T):
    def __repr__(s): return 'double'
class PtrT(T):
    def __init__(s, to): s.to = to
    def __repr__(s): return '%r*' % (s.to,)
class ArrT(T):
    def __init__(s, n, el): s.n = n; s.el = el
    def __repr__(s): return '[%d x %r]' % (s.n, s.el)
class StructT(T):
    def __init__(s, els, packed=False): s.els = els; s.packed = packed
    def __repr__(s): return '{%s}' % ','.join(map(repr, s.els))
class NamedT(T):
    def __init__(s, name): s.name = name
    def __repr__(s): return s.name
class VoidT(T):
    def __repr__(s): return 'void'
class FnT(T):
    def __repr__(s): return 'fn'

class Module:
    def __init__(s): s.types = {}; s.funcs = {}; s.globals = {}; s.decls = set()

    def resolve(s, t):
        while isinstance(t, NamedT):
            t = s.types[t.name]
        return t
    def align(s, t):
        t = s.resolve(t)
        if isinstance(t, IntT): return max(1, min(8, (t.bits + 7) // 8))
        if isinstance(t, (DblT, PtrT)): return 8
        if isinstance(t, ArrT): return s.align(t.el)
        if isinstance(t, StructT):
            return 1 if t.packed or not t.els else max(s.align(e) for e in t.els)
        raise Exception('align %r' % t)
    def size(s, t):
        t = s.resolve(t)
        if isinstance(t, IntT): return max(1, (t.bits + 7) // 8)
        if isinstance(t, (DblT, PtrT)): return 8
        if isinstance(t, ArrT): return t.n * s.size(t.el)
        if isinstance(t, StructT):
            off = 0
            for e in t.els:
                a = 1 if t.packed else s.align(e)
                off = (off + a - 1) // a * a + s.size(e)
            a = s.align(t)
            return (off + a - 1) // a * a
        raise Exception('size %r' % t)
    def field_off(s, t, i):
        t = s.resolve(t)
        off = 0
        for k, e in enumerate(t.els):
            a = 1 if t.packed else s.align(e)
            off = (off + a - 1) // a * a
            if k == i: return off
            off += s.size(e)
        raise Exception('field')

# ---------------------------------------------------------------- tokenizer / type parser
TOK = re.compile(r'\s*(\.\.\.|[%@][-a-zA-Z$._0-9]+|[%@]"[^"]*"|c"(?:[^"\\]|\\.)*"|-?\d+\.\d*(?:e[+-]?\d+)?|0x[0-9A-Fa-f]+|-?\d+|[a-zA-Z_][a-zA-Z0-9_.]*|<\{|\}>|[\[\]{}()<>,=*!#])')
def tokenize(line):
    out = []; i = 0
    line = line.split(', !')[0] if False else line
    while i < len(line):
        m = TOK.match(line, i)
        if not m:
            if line[i:].strip() == '': break
            raise Exception('tok: %r at %r' % (line, line[i:i+20]))
        out.append(m.group(1)); i = m.end()
    return out

class P:
    def __init__(s, toks): s.t = toks; s.i = 0
    def peek(s, k=0): return s.t[s.i + k] if s.i + k < len(s.t) else None
    def next(s): v = s.t[s.i]; s.i += 1; return v
    def eat(s, x):
        if s.peek() == x: s.i += 1; return True
        return False
    def expect(s, x):
        v = s.next()
        assert v == x, (v, x, s.t[max(0, s.i-5):s.i+5])
    def type(s):
        t = s.next()
        if t == 'void': ty = VoidT()
        elif t == 'double': ty = DblT()
        elif t == 'float': ty = DblT()
        elif re.fullmatch(r'i\d+', t): ty = IntT(int(t[1:]))
        elif t[0] == '%': ty = NamedT(t)
        elif t == '[':
            n = int(s.next()); s.expect('x'); el = s.type(); s.expect(']'); ty = ArrT(n, el)
        elif t == '{' or t == '<{':
            els = []
            close = '}' if t == '{' else '}>'
            while s.peek() != close:
                els.append(s.type()); s.eat(',')
            s.next(); ty = StructT(els, t == '<{')
        elif t == 'opaque': ty = StructT([])
        else: raise Exception('type? %r in %r' % (t, s.t))
        while True:
            if s.eat('*'): ty = PtrT(ty)
            elif s.peek() == '(':
                # function type
                d = 0
                while True:
                    x = s.next()
                    if x == '(': d += 1
                    elif x == ')':
                        d -= 1
                        if d == 0: break
                ty = FnT()
            else: break
        return ty

ATTRS = {'noundef','nonnull','nocapture','readonly','writeonly','readnone','noalias','signext','zeroext','inreg','returned','immarg','nofree','nest'}
def skip_attrs(p):
    byval = None
    while True:
        t = p.peek()
        if t in ATTRS: p.next()
        elif t in ('align','dereferenceable','dereferenceable_or_null'):
            p.next()
            if p.peek() == '(':
                p.next(); p.next(); p.expect(')')
            else: p.next()
        elif t in ('byval','sret'):
            p.next(); p.expect('('); ty = p.type(); p.expect(')')
            if t == 'byval': byval = ty
        else: break
    return byval

# operand: returns tuple
def operand(p, ty):
    t = p.next()
    if t[0] == '%': return ('reg', t)
    if t[0] == '@': return ('glob', t)
    if t in ('true','false'): return ('int', 1 if t == 'true' else 0)
    if t in ('null','zeroinitializer'): return ('zero',)
    if t == 'undef' or t == 'poison': return ('undef',)
    if t.startswith('0x'):
        import struct
        return ('dbl', struct.unpack('>d', bytes.fromhex(t[2:].rjust(16,'0')))[0])
    if re.fullmatch(r'-?\d+', t):
        if isinstance(ty, DblT): return ('dbl', float(t))
        return ('int', int(t))
    if re.fullmatch(r'-?\d+\.\d*(e[+-]?\d+)?', t): return ('dbl', float(t))
    if t == 'getelementptr':
        p.eat('inbounds'); p.expect('(')
        bt = p.type(); p.expect(',')
        pt = p.type(); base = operand(p, pt)
        idx = []
        while p.eat(','):
            p.eat('inrange')
            it = p.type(); idx.append(operand(p, it))
        p.expect(')')
        return ('cgep', bt, base, idx)
    if t == 'bitcast':
        p.expect('('); ft = p.type(); v = operand(p, ft); p.expect('to'); tt = p.type(); p.expect(')')
        return v
    if t == '[':
        els = []
        while p.peek() != ']':
            et = p.type(); els.append(operand(p, et)); p.eat(',')
        p.next(); return ('carr', els)
    if t[0] == 'c' and t[1] == '"': return ('cstr', t)
    if t in ('{', '<{'):
        close = '}' if t == '{' else '}>'; els = []
        while p.peek() != close:
            et = p.type(); els.append(operand(p, et)); p.eat(',')
        p.next(); return ('cstruct', els)
    if t in ('ptrtoint', 'inttoptr', 'addrspacecast'):
        p.expect('('); ft = p.type(); v = operand(p, ft); p.expect('to'); tt = p.type(); p.expect(')')
        return v
    raise Exception('operand? %r in %r' % (t, p.t))

class Ins:
    def __init__(s, **k): s.__dict__.update(k)
    def __repr__(s): return 'Ins(%s)' % s.__dict__

BINOPS = {'add','sub','mul','udiv','sdiv','urem','srem','shl','lshr','ashr','and','or','xor','fadd','fsub','fmul','fdiv','frem'}
CASTS = {'bitcast','zext','sext','trunc','sitofp','uitofp','fptosi','fptoui','ptrtoint','inttoptr','fpext','fptrunc'}
FLAGS = {'nuw','nsw','exact','nnan','ninf','nsz','arcp','contract','afn','reassoc','fast','inbounds','volatile','tail','notail','musttail','atomic'}

def parse_call_args(p):
    args = []
    p.expect('(')
    while p.peek() != ')':
        if p.peek() == 'metadata':
            # skip metadata arg
            while p.peek() not in (',', ')'): p.next()
            p.eat(','); args.append((VoidT(), ('undef',), None)); continue
        ty = p.type(); bv = skip_attrs(p); v = operand(p, ty); args.append((ty, v, bv)); p.eat(',')
    p.next()
    return args

def parse_ins(line):
    line = re.sub(r', ![a-zA-Z.]+ ![0-9]+', '', line)
    line = re.sub(r' #\d+$', '', line.rstrip())
    mm = re.match(r'^(%[-a-zA-Z$._0-9]+) = cmpxchg (?:weak )?(?:volatile )?(.*)$', line)
    if mm:
        p = P(tokenize(mm.group(2))); pt = p.type(); a = operand(p, pt); p.expect(','); ty = p.type(); c = operand(p, ty); p.expect(','); ty2 = p.type(); n = operand(p, ty2)
        return Ins(op='cmpxchg', dest=mm.group(1), ty=ty, a=a, cmp=c, new=n)
    mm = re.match(r'^(%[-a-zA-Z$._0-9]+) = atomicrmw (?:volatile )?(\w+) (.*)$', line)
    if mm:
        p = P(tokenize(mm.group(3))); pt = p.type(); a = operand(p, pt); p.expect(','); ty = p.type(); v = operand(p, ty)
        return Ins(op='atomicrmw', dest=mm.group(1), rmw=mm.group(2), ty=ty, a=a, v=v)
    if line.startswith('fence'): return Ins(op='fence', dest=None)
    ins = _parse_ins(line)
    if re.search(r'\b(load|store) atomic\b', line): ins.atomic = True
    return ins

def _parse_ins(line):
    p = P(tokenize(line))
    dest = None
    if p.peek(1) == '=':
        dest = p.next(); p.next()
    while p.peek() in FLAGS: p.next()
    op = p.next()
    if op in BINOPS:
        while p.peek() in FLAGS: p.next()
        ty = p.type(); a = operand(p, ty); p.expect(','); b = operand(p, ty)
        return Ins(op=op, dest=dest, ty=ty, a=a, b=b)
    if op == 'fneg':
        while p.peek() in FLAGS: p.next()
        ty = p.type(); a = operand(p, ty); return Ins(op=op, dest=dest, ty=ty, a=a)
    if op in ('icmp','fcmp'):
        while p.peek() in FLAGS: p.next()
        pred = p.next(); ty = p.type(); a = operand(p, ty); p.expect(','); b = operand(p, ty)
        return Ins(op=op, dest=dest, pred=pred, ty=ty, a=a, b=b)
    if op in CASTS:
        ft = p.type(); a = operand(p, ft); p.expect('to'); tt = p.type()
        return Ins(op=op, dest=dest, ft=ft, tt=tt, a=a)
    if op == 'alloca':
        ty = p.type(); n = None
        if p.eat(','):
            if p.peek() != 'align':
                nt = p.type(); n = operand(p, nt)
        return Ins(op=op, dest=dest, ty=ty, n=n)
    if op == 'load':
        while p.peek() in FLAGS: p.next()
        ty = p.type(); p.expect(','); pt = p.type(); a = operand(p, pt)
        return Ins(op=op, dest=dest, ty=ty, a=a)
    if op == 'store':
        while p.peek() in FLAGS: p.next()
        ty = p.type(); v = operand(p, ty); p.expect(','); pt = p.type(); a = operand(p, pt)
        return Ins(op=op, ty=ty, v=v, a=a, dest=None)
    if op == 'getelementptr':
        p.eat('inbounds'); bt = p.type(); p.expect(','); pt = p.type(); base = operand(p, pt); idx = []
        while p.eat(','):
            it = p.type(); idx.append((it, operand(p, it)))
        return Ins(op=op, dest=dest, bt=bt, base=base, idx=idx)
    if op == 'phi':
        ty = p.type(); inc = []
        while True:
            p.expect('['); v = operand(p, ty); p.expect(','); l = p.next(); p.expect(']'); inc.append((v, l))
            if not p.eat(','): break
        return Ins(op=op, dest=dest, ty=ty, inc=inc)
    if op == 'select':
        while p.peek() in FLAGS: p.next()
        ct = p.type(); c = operand(p, ct); p.expect(','); ty = p.type(); a = operand(p, ty); p.expect(','); ty2 = p.type(); b = operand(p, ty2)
        return Ins(op=op, dest=dest, c=c, ty=ty, a=a, b=b)
    if op == 'br':
        if p.peek() == 'label':
            p.next(); return Ins(op='jmp', dest=None, to=p.next())
        ct = p.type(); c = operand(p, ct); p.expect(','); p.expect('label'); t1 = p.next(); p.expect(','); p.expect('label'); t2 = p.next()
        return Ins(op='br', dest=None, c=c, t=t1, f=t2)
    if op == 'switch':
        ty = p.type(); v = operand(p, ty); p.expect(','); p.expect('label'); d = p.next(); p.expect('[')
        cases = []
        while p.peek() != ']':
            ct = p.type(); cv = operand(p, ct); p.expect(','); p.expect('label'); cases.append((cv[1], p.next()))
        return Ins(op='switch', dest=None, ty=ty, v=v, default=d, cases=cases)
    if op == 'ret':
        ty = p.type()
        if isinstance(ty, VoidT): return Ins(op='ret', dest=None, v=None)
        return Ins(op='ret', dest=None, ty=ty, v=operand(p, ty))
    if op == 'unreachable': return Ins(op=op, dest=None)
    if op in ('call','invoke'):
        while p.peek() in FLAGS or p.peek() in ATTRS or p.peek() in ('fastcc','ccc'): p.next()
        skip_attrs(p)
        rty = p.type(); skip_attrs(p)
        callee = operand(p, None)
        args = parse_call_args(p)
        normal = None
        if op == 'invoke':
            while p.peek() != 'to': p.next()
            p.next(); p.expect('label'); normal = p.next()
        return Ins(op='call', dest=dest, rty=rty, callee=callee, args=args, normal=normal)
    if op == 'landingpad':
        ty = p.type(); return Ins(op='landingpad', dest=dest, ty=ty)
    if op == 'resume':
        return Ins(op='unreachable', dest=None)
    if op == 'extractvalue':
        ty = p.type(); a = operand(p, ty); idx = []
        while p.eat(','): idx.append(int(p.next()))
        return Ins(op=op, dest=dest, ty=ty, a=a, idx=idx)
    if op == 'insertvalue':
        ty = p.type(); a = operand(p, ty); p.expect(','); vt = p.type(); v = operand(p, vt); idx = []
        while p.eat(','): idx.append(int(p.next()))
        return Ins(op=op, dest=dest, ty=ty, a=a, v=v, vt=vt, idx=idx)
    if op == 'freeze':
        ty = p.type(); a = operand(p, ty); return Ins(op='freeze', dest=dest, ty=ty, a=a)
    raise Exception('ins? %s' % line)

def parse_module(path, want=None):
    m = Module()
    m.src = open(path).read()
    lines = m.src.split('\n')
    m.decl_lines = {mm.group(1): mm.group(0) for mm in re.finditer(r'^declare [^@]*(@[-a-zA-Z$._0-9"]+)\(.*$', m.src, re.M)}
    m.decls_all = set(m.decl_lines)
    i = 0
    while i < len(lines):
        L = lines[i]
        mt = re.match(r'^(%(?:"[^"]*"|[-a-zA-Z$._0-9]+)) = type (.*)$', L)
        if mt:
            m.types[mt.group(1)] = P(tokenize(mt.group(2))).type(); i += 1; continue
        mg = re.match(r'^(@[-a-zA-Z$._0-9"]+) = (.*)$', L)
        if mg:
            m.globals[mg.group(1)] = mg.group(2); i += 1; continue
        md = re.match(r'^define .*?(@[-a-zA-Z$._0-9"]+)\((.*)\)[^()]*\{$', L)
        if md:
            name = md.group(1)
            body = []
            i += 1
            while lines[i] != '}':
                body.append(lines[i]); i += 1
            m.funcs[name] = (L, body)
        i += 1
    return m

class Func:
    def __init__(s, m, name):
        L, body = m.funcs[name]
        s.name = name
        # params
        hdr = L[L.index(name) + len(name):]
        p = P(tokenize(hdr[:hdr.rindex(')') + 1]))
        p.expect('(')
        s.params = []
        k = 0
        while p.peek() != ')':
            if p.peek() == '...': p.next(); continue
            ty = p.type(); bv = skip_attrs(p)
            nm = p.next() if p.peek() not in (',', ')') else '%%%d' % k
            s.params.append((ty, nm, bv)); p.eat(',')
        s.blocks = {}; s.order = []
        cur = '%' + str(len(s.params)) if not any(n for _, n, _ in s.params if not n[1:].isdigit()) else '%entry'
        # entry label: numbering = number of params
        cur = '%%%d' % len(s.params)
        s.blocks[cur] = []; s.order.append(cur)
        joined = []; inswitch = False
        for L2 in body:
            if inswitch:
                joined[-1] += ' ' + L2.strip()
                if L2.strip() == ']': inswitch = False
                continue
            if re.match(r'^\s*switch ', L2) and L2.rstrip().endswith('['):
                joined.append(L2); inswitch = True; continue
            if L2.strip().startswith('to label') and joined: joined[-1] += ' ' + L2.strip()
            elif L2.strip().startswith('cleanup') or L2.strip().startswith('catch ') or L2.strip().startswith('filter '): continue
            else: joined.append(L2)
        for L2 in joined:
            if not L2.strip() or L2.lstrip().startswith(';'): continue
            ml = re.match(r'^([-a-zA-Z$._0-9]+):', L2)
            if ml:
                cur = '%' + ml.group(1); s.blocks[cur] = []; s.order.append(cur); continue
            s.blocks[cur].append(parse_ins(L2.strip()))
        s.entry = s.order[0]


SIG_SKIP = ('dso_local','linkonce_odr','internal','weak_odr','hidden','noundef','zeroext','signext','nonnull','noalias',
            'available_externally','weak','external','local_unnamed_addr','unnamed_addr','private','fastcc','ccc','protected')
def ret_type(m, fname):
    """return type of a defined or declared function"""
    L = m.funcs[fname][0] if fname in m.funcs else m.decl_lines[fname]
    hdr = L[:L.index(fname + '(')]
    p = P(tokenize(hdr.replace('define', '', 1).replace('declare', '', 1)))
    while p.peek() in SIG_SKIP or p.peek() in ('align', 'dereferenceable', 'dereferenceable_or_null'):
        t = p.next()
        if t in ('align', 'dereferenceable', 'dereferenceable_or_null'):
            if p.peek() == '(': p.next(); p.next(); p.next()
            else: p.next()
    return p.type()

def decl_param_types(m, fname):
    L = m.decl_lines[fname]
    ps = L[L.index(fname + '(') + len(fname):]; ps = ps[:ps.rindex(')') + 1]
    p = P(tokenize(ps)); p.expect('('); pts = []
    while p.peek() != ')':
        if p.peek() == '...': p.next(); continue
        ty = p.type(); skip_attrs(p); pts.append(ty); p.eat(',')
    return pts

def reachable(m, roots, stubs=()):
    """defined functions reachable from roots (call graph over direct calls), externals, has_indirect"""
    seen = []; work = list(roots); ext = set(); indirect = []
    fc = {}
    while work:
        f = work.pop()
        if f in seen or f in stubs: continue
        if f not in m.funcs: ext.add(f); continue
        seen.append(f)
        F = Func(m, f); fc[f] = F
        for b in F.order:
            for i in F.blocks[b]:
                if i.op == 'call':
                    if i.callee[0] == 'glob': work.append(i.callee[1])
                    else: indirect.append(f)
    return seen, ext, fc, indirect
