#!/usr/bin/env python3
"""Regenerates MANIFEST.json from the table below (kept next to the checks so it stays current)."""
import json, os
here = os.path.dirname(os.path.dirname(os.path.abspath(__file__)))
A = 'clang++-14 IR of the real sources -> C (lib/irc.py) -> cbmc 6.11 bounded model checking (SAT), witness twin per harness, native replay of counterexamples'
B = 'clang++-14 IR of the real sources -> symbolic execution in python (lib/irz.py) -> z3 over a sound term-level abstraction of binary64 (IEEE-UF) / exact integers; candidates replayed natively'
CHECKS = {
 'C03': dict(engine='A+B', technique='bounded model checking (cbmc/SAT) of the real direction tables and sub-grid wiring code lowered through LLVM IR',
   text='Solver verdict over ALL 27 classifications x all binary64 direction triples x all 64 masks for the direction tables (no bound needed: loop-free), against an independent arithmetic reference; hand-over bookkeeping on entry for every classification with symbolic geometry (z3, term level); neighbour wiring of the real create_subgrid against a geometric reference incl. periodic axes with 1-2 sub-grids (cbmc, symbolic sub-grid/direction/periodicity). Bounded model checking is the right level: the content is finite tables and index arithmetic where the rare input (one wrong entry out of 27) is exactly what sampling misses.',
   note='Trusted: clang-14 lowering (-O1), the IR->C translator (validated every run against the g++ build of the same wrappers on 900 vectors), cbmc. Outside: numeric equality of estimators between split and unsplit grids; copies (create_copies/update_original_counters); layouts beyond those listed.', ref='DESIGN.md section 5 C03'),

 'C14': dict(engine='A', technique='bounded model checking (cbmc/SAT) of the real RestartManager::get_restart_writer text against a modelled file system: inductive step over arbitrary history length, crash point symbolic',
   text='One inductive step of the dump rotation from the state after d dumps (representation invariant, d-generic) for every max_backups in 0..8, with a crash injected at every file-system operation; solver verdict over all (max_backups, d, crash point). Covers histories of any length by induction; counterexamples are replayed on the real RestartManager with real rename(2) in a temp dir.',
   note='Trusted: the environment models (std::string/stringstream as {kind,index}, POSIX rename on an array file system, truncating writer). Outside: fsync/durability, stop-file and wall-clock triggers, a manager constructed over a directory that already holds dumps.', ref='DESIGN.md section 5 C14'),
 'C19': dict(engine='B+A', technique='symbolic execution of the real TimeLine IR with z3 (bit-vector integers, power-of-two scaling exact) for advance/constructor/restart; cbmc bit-precise for the end-time formula',
   text='One advance() from ANY valid state (inductive: covers every history of requests), the constructor establishing the invariant, the restart pair, each path obligation decided by z3; the physical end-time formula is decided bit-precisely by cbmc. Quick enumerates 16 of the 64 maximum-step exponents, thorough all 64.',
   note='Assumes conversion factor in the normal range (power-of-two scaling exact), request > 0 and finite. Known finding D7 (end time one rounding away from the requested end) is listed in known_findings.json and reported as KNOWN-FINDING.', ref='DESIGN.md section 5 C19'),

 'C13': dict(engine='B', technique='symbolic execution of the real RandomGenerator IR with z3 in an exact dyadic-integer domain (binary64 add/sub on multiples of 2^-48 is exact; side condition proved per operation)',
   text='Every loop body of the RANLUX refill equals the reference subtract-with-borrow step from ANY valid state (inductive over all stream positions), the shipped 397-step refill tiles exactly, seeding is decided for every 64-bit seed argument (equals the reference shift-register initialisation, 0->1, only low 31 bits count), draws are in [0,1), restart restores all 17 words. All obligations are z3 verdicts over symbolic state; none is sampled.',
   note='Reference recurrence transcribed in the harness (no copy of ranlxd.c offline): equality with the published stream is relative to it. A7 exactness lemma: each use discharges |n|<=2^53. Whole-run byte identity of snapshots is outside.', ref='DESIGN.md section 5 C13'),

 'C05': dict(engine='B', technique='symbolic execution of the real HLLC solver IR, two runs in one path (relational), z3 over the IEEE-UF abstraction of binary64 (rounded ops uninterpreted + ground IEEE-true axioms)',
   text='Bit-exact antisymmetry F(R,L,-n) == -F(L,R,n) of the whole HLLC flux (mass, momentum, energy), including one-sided vacuum and vacuum generation, on every tie-free feasible path pair; z3 unsat per obligation. This is the conservation-critical clause and is exactly what sampling cannot settle (it needs moving gas next to a vacuum).',
   note='Stated exclusions: ties of computed comparisons, computed quantities guarded by +DBL_MIN within 2^-940 of zero, misordered rounded fan edges on vacuum generation, inputs 0 or within [2^-100,2^100] (no overflow/underflow). Outside: Galilean invariance, textbook-HLLC equality, continuity, 1.5 c_s clause (round-off level statements).', ref='DESIGN.md section 5 C05'),

 'C11': dict(engine='B', technique='symbolic execution of the real ExactRiemannSolver sampling code with z3 over the IEEE-UF abstraction (relational: mirror pairs, vacuum vs fan, code vs textbook term shapes)',
   text='Decides the loop-free sampling structure for symbolic states, star state and sampling speed: left/right mirror consistency, vacuum solutions joining the rarefaction fans as identical terms, regime boundaries, jump/isentropic relations as term shapes. The headline accuracy clause (iterative P* over pow in binary64) is a numerical-analysis statement outside any solver here and is NOT claimed.',
   note='Partial: star-pressure accuracy, continuity as numbers and agreement with a reference solver are outside. Ties excluded; stated domain [2^-100,2^100].', ref='DESIGN.md section 5 C11'),

 'C17': dict(engine='B+A', technique='symbolic execution of the real predicate code with big integers mapped to z3 Int (polynomial identities and magnitude lemmas decided by z3 NIA); cbmc bit-precise for the mantissa map',
   text='orient3d_exact / insphere_exact equal the sign of the reference determinants for ALL mantissa values (polynomial identity over mathematical integers), change sign under odd and are invariant under even permutations, every intermediate fits the 256/278-bit types; get_mantissa is the exact affine map on [1,2) for every binary64 value.',
   note='Partial: soundness of the floating-point filter (adaptive versions) is an FP error-analysis statement and is outside. Boost big integers are modelled as mathematical integers; width sufficiency is proved separately (E3).', ref='DESIGN.md section 5 C17'),

 'C12': dict(engine='A', technique='bounded model checking (cbmc/SAT, pointer and deallocation checks) of real constructor/destructor pairs and container operations lowered through LLVM IR',
   text='Unit-level necessary conditions only: owners of optional components (LiveOutputManager, ...) constructed on storage with arbitrary previous content free only what they allocated, for every option combination; container harnesses of C01/C07/C08 run with bounds and pointer checks. Whole runs are not encodable and are NOT claimed.',
   note='Partial by construction: exit status and memory safety of complete runs in every mode are outside this technique (whole program, I/O, OpenMP runtime).', ref='DESIGN.md section 5 C12'),

 'C16': dict(engine='B+A', technique='symbolic execution (z3, IEEE-UF + bit-vectors) of the real Morton key and Cartesian index/wrap/wall-intersection code; cbmc for the long-index bijection and for the bit-precise top-wall index query',
   text='Partial: Morton key == bit interleave for symbolic positions; periodic wrap / outside test / wall-intersection bookkeeping on symbolic indices; long-index bijection; and the bit-precise question whether a position in the half-open box can get cell index n (answer: yes - known finding D8, replayed on the real grid).',
   note='Outside: AMR refinement histories, Voronoi, path conservation of the legacy traversal as numbers, search structures; upper index bound as an unsat FP fact (no back end finished).', ref='DESIGN.md section 5 C16'),

 'C08': dict(engine='A', technique='bounded model checking (cbmc/SAT) of the real container operations sequentialised by the translator (A-seq): each thread body is a step machine yielding before every atomic instruction, the schedule is a nondeterministic input, pre-state an arbitrary valid container state',
   text='All interleavings of the atomic operations of two (thorough: three) concurrent real operations - pool get/get, get/free, queue get/get, get/try_get, add/get, lock_dependency pairs, atomic counter/max/lock pairs - from arbitrary valid states at small size, plus sequential inductive twins with the full state space; the solver covers every schedule within the step bound.',
   note='Bounds: 2-3 threads, one operation each, pools of 3 slots, queues of <=1 entry in the two-thread races (<=3 in the sequential twins), <= 12-30 scheduled steps (longer spins assumed away). Sequentially consistent atomics; plain accesses grouped with the preceding atomic step. Outside: >3 threads, liveness, relaxed memory.', ref='DESIGN.md section 5 C08'),

 'C07': dict(engine='A', technique='bounded model checking (cbmc/SAT) of the real task-graph construction (make_hydro_tasks, set_dependencies, reset_hydro_tasks) on sub-grids wired by the real create_subgrid, probe task / sub-grid symbolic',
   text='Static well-formedness of the constructed hydro task graph for every listed layout and all 8 periodicity combinations: children valid and layered (acyclic), unfinished-parent counters == in-degree (so a task is released exactly when all parents finished), start tasks == gradient sweeps, lock set == sub-grids touched with distinct ordered locks, every face covered exactly once per phase. The dynamic clauses (exactly once, mutual exclusion, termination under all interleavings) rest on these facts plus the C08 primitives; that composition is a paper argument, not machine-checked.',
   note='Layouts: quick 1x1x1, 2x1x1, 1x2x1, 1x1x2 (all 8 flag combinations) and 2x2x2 (none/all periodic); thorough adds 8 more layouts up to 3x3x1. Sub-grid constructor stubbed (geometry ints, lock, task slots). Outside: the worker loop under all interleavings for 3..16 threads, larger layouts, liveness.', ref='DESIGN.md section 5 C07'),

 'C09': dict(engine='B', technique='symbolic execution (z3, term level) of the real write_restart_file / restart constructors against a typed tape model of the I/O classes',
   text='Unit-level necessary condition: for each encodable restartable component (IonizationVariables, HydroVariables, Box/CoordinateVector, DensitySubGrid/HydroDensitySubGrid built by the ordinary constructor; TimeLine and RandomGenerator under C19/C13) the restarted object equals the dumped one field by field INCLUDING derived fields, read order/types match the write, and write(read(write(x))) == write(x), for all field values.',
   note='Partial: the headline clause (a whole run dumped at step k continues bit-identically), chains of restarts, optional components and string/map based state (ParameterFile, YAMLDictionary) are outside. Sub-grids of 1-3 cells.', ref='DESIGN.md section 5 C09'),

 'C04': dict(engine='B+A', technique='symbolic execution (z3, IEEE-UF, two runs in one path) of the real Hydro::do_flux_calculation for the flux application; cbmc on the real sweep loops with recording stubs for face coverage',
   text='Structural facts that imply conservation: (F1) what do_flux_calculation subtracts from the left cell it adds to the right cell, bit for bit, limiter active or not, independent of pending changes; (F2) inner and outer flux/gradient sweeps visit every face exactly once with the correct cell pair, for cubic and non-cubic blocks. Totals "up to round-off" over whole grids are the paper consequence (with C07) and are not machine-checked.',
   note='Riemann solver and slope limiter are memoised nondeterministic functions in F1. Outside: positivity safeguards, ghost/reflective boundaries (F3), 1.5 c_s wall clause, CFL.', ref='DESIGN.md section 5 C04'),
 'C10': dict(engine='A', technique='bounded model checking (cbmc) of the real inner/outer sweep loops with recording stubs, symbolic probe face',
   text='L1: a block split into sub-grids computes exactly the same (left cell, right cell, direction) pairs as the single block: outer sweeps pair upper-wall cells of the left grid with lower-wall cells of the right grid at equal transverse indices, inner sweeps cover every interior face once; for block shapes up to 3x3x3 including non-cubic ones. Numeric equality of the sums is "up to round-off" by the property itself and is not claimed.',
   note='Equal-shape neighbours assumed (as in the code). L3 (single-thread pop order is a function of the queue state) is covered structurally by C08 QS_get_task.', ref='DESIGN.md section 5 C10'),
 'C18': dict(engine='B+A', technique='symbolic execution (z3, IEEE-UF) of the real Verner cross-section routine on arbitrary tables against the transcribed published formula; cbmc bit-precise for the table search',
   text='Cross sections for arbitrary table entries with the shipped sign pattern equal the published fitting formula on the same tables, are non-negative and exactly zero below threshold (element Z=4 tables, all ionisation stages, shells 1-3); Utilities::locate brackets every x in every strictly increasing table of length 2..16.',
   note='Partial: table values themselves, recombination/charge-transfer rates, statistical distribution of sampled frequencies are outside.', ref='DESIGN.md section 5 C18'),

 'C02': dict(engine='B', technique='symbolic execution (z3, IEEE-UF term level) of the real DensitySubGrid::interact on small blocks, every feasible path, against the textbook march written in the harness as specification',
   text='For every start position, direction sign pattern (axis-aligned and tie cases are separate paths), cell content and target optical depth on a single-cell block (the two-cell block is not yet dischargeable): which cells are credited what (path length terms, optical-depth chain, estimator and heating increments exactly once per visited cell), stop INSIDE iff the target is reached with the surplus correction, exit classification = walls crossed, final position exactly on the crossed walls, no cell twice, no more cells than a straight line crosses.',
   note='Term identities are decided instead of the real-number sums with a tolerance. Entry classification INSIDE; hand-over on entry is C03-T2. Multi-cell blocks, propagate(), compute_optical_depth() outside.', ref='DESIGN.md section 5 C02 / 8.2'),
 'C06': dict(engine='B', technique='symbolic execution (z3, IEEE-UF sign and monotonicity axioms) of the real hydrogen-only closed form',
   text='Partial: the H-only neutral fraction is in [1e-14,1] for all positive inputs and exactly 1 without radiation or gas; weakly decreasing in the radiation field in the large-flux branch. The coupled H/He iteration, metal stages and the thermal balance are NOT decided (iterative numerics over exp/pow; convergence statements).',
   note='Only the closed form of IonizationStateCalculator::compute_ionization_state_hydrogen; everything else of C06 is outside.', ref='DESIGN.md section 5 C06'),

 'C01': dict(engine='A', technique='bounded model checking (cbmc/SAT) of the real MemorySpace::add_photons / free_buffer and DistributedPhotonSource::get_photon_batch from arbitrary valid states',
   text='Partial: per-task accounting lemmas that the conservation invariant requested = done + packets in live buffers rests on: buffer overflow copy loses/duplicates no packet and uses an empty inherited buffer, releasing resets first, batches are min(max, remaining) and sum to the total by induction. The cross-thread termination protocol as a whole is NOT decided.',
   note='Buffer size 3 (quick) / 6 (thorough) through the guarded hook CMACIONIZE_VERIF_PHOTONBUFFER_SIZE; traversal/re-emission/premature-launch task bodies (H2,H3,H5) not built; composition with the C08 primitives is a paper argument.', ref='DESIGN.md section 5 C01 / 8.2'),
}
NA = {
 'C15': 'not applicable to this technique: the incremental Delaunay / plane-cutting Voronoi constructions are pointer-rich, heap-growing algorithms whose loop counts grow with the generator count and whose correctness statement is geometric (volumes, matching faces); neither cbmc (heap growth) nor a term-level abstraction can encode a tessellation invariant within reach. The only solver-tractable ingredient, the exact predicates, is C17. See DESIGN.md section 5 C15.',
 'C20': 'not applicable to this technique: YAMLDictionary/ParameterFile are std::map<std::string,std::string> + iostream parsing, UnitConverter dispatches on std::string, snapshots go through libhdf5; their callees have no IR and no faithful small model, so a solver run would verify a hand-written model of string/map/stream, not the code. See DESIGN.md section 5 C20.',
}
PENDING = 'check not built yet in this round (planned, see DESIGN.md section 5)'
ALL = ['C%02d' % i for i in range(1, 21)]
m = {'version': 1, 'setup_cmd': 'python3 -c "import sys; sys.exit(0)"',
     'hooks': {'guard': 'CMACIONIZE_VERIF', 'enable': 'harness TUs are compiled with -DCMACIONIZE_VERIF (and, for C01, -DCMACIONIZE_VERIF_PHOTONBUFFER_SIZE=3u/6u) by lib/vlib.py (clang++-14 -> LLVM IR); the repository build itself is not rebuilt with the guard',
               'baseline_off_cmd': 'cmake --build /repo/_build -j16 -- -k 0 >/dev/null 2>&1; ctest --test-dir /repo/_build -j8 --timeout 900', 'source_commits': ['04d4ccf verification hook: PHOTONBUFFER_SIZE can be overridden under CMACIONIZE_VERIF (src/PhotonBuffer.hpp)'], 'add_only': True},
     'engines': [{'name': 'A', 'path': 'lib/irc.py', 'serves_properties': sorted(k for k, v in CHECKS.items() if 'A' in v['engine']), 'kind_free_text': A},
                 {'name': 'B', 'path': 'lib/irz.py', 'serves_properties': sorted(k for k, v in CHECKS.items() if 'B' in v['engine']), 'kind_free_text': B}],
     'checks': [], 'not_applicable': [], 'notes': 'Every check regenerates its encoding from /repo/src on each run (clang -> IR -> C/z3). Exit 2 + BROKEN-CHECK means the machinery itself failed (timeout, unwinding bound, translation-validation mismatch); it is never reported as success.'}
for pid in ALL:
    if pid in CHECKS:
        c = CHECKS[pid]
        m['checks'].append({'property_id': pid, 'quick_cmd': './check %s --tier quick' % pid, 'thorough_cmd': './check %s --tier thorough' % pid,
                            'evidence_file': 'evidence/%s.json' % pid, 'replay_cmd_template': './check %s --replay {path}' % pid, 'engine': c['engine'],
                            'level_claimed': {'category': 'model_checking', 'text': c['text'], 'design_ref': c['ref']}, 'level_note': c['note'], 'technique': c['technique']})
    else:
        m['not_applicable'].append({'property_id': pid, 'reason': NA.get(pid, PENDING)})
json.dump(m, open(os.path.join(here, 'MANIFEST.json'), 'w'), indent=1)
try:
    import jsonschema
    jsonschema.validate(m, json.load(open('/root/.vp/MANIFEST.schema.json'))); print('manifest valid:', len(m['checks']), 'checks')
except ImportError: print('written (jsonschema not available)')
