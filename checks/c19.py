import os, sys
from vlib import *

def harnesses(tier):
    H = []
    if tier == 'quick': groups = [(0, 3), (4, 6), (20, 21), (31, 33), (47, 48), (61, 61), (62, 62), (63, 63)]
    else: groups = [(b, b) for b in range(64)]
    for lo, hi in groups:
        H.append(BHarness('N1_advance_b%d_%d' % (lo, hi), 'c19_tl.cpp', 'h_n1_advance', defs=['BLO=%d' % lo, 'BHI=%d' % hi], maxpaths=60000, timeout=1500, split=(4 if hi >= 30 else 1),
            what='one TimeLine::advance from ANY valid state (min=2^a<=max=2^b, current<2^63, any request>0, any conversion factor in the normal range): either no progress and "stop", or the step is a power of two in [min,max] dividing 2^63-current, physical size <= requested and <= physical maximum, time strictly increases, never exceeds 2^63, reported time = to_physical_time(new state), returns true exactly until 2^63 is reached',
            bound='max exponent b in [%d,%d] enumerated (one path family per value), min exponent a<=b symbolic, current time symbolic 63 bit, request/A/B symbolic reals; both loops fully unrolled (<=65 iterations, unwinding obligation = step budget not hit)' % (lo, hi)))
    H.append(BHarness('N2_ctor', 'c19_tl.cpp', 'h_n2_ctor', defs=['BLO=0', 'BHI=0'], maxpaths=20000, timeout=1500, split=8,
        what='TimeLine(start,end,min,max) establishes the representation invariant: min,max powers of two, 1<=min<=max<=2^63, current=0, A*2^63 == fl(end-start), B == start, physical min/max steps not above the requested ones',
        bound='start/end/min/max symbolic reals with fl(end-start) in [2^-900, 2^960]; both halving loops fully explored (<=64 iterations each)'))
    H.append(BHarness('N3_restart', 'c19_tl.cpp', 'h_n3_restart', defs=['BLO=0', 'BHI=0'],
        what='write_restart_file -> tape -> restart constructor restores all five words (types and order checked by the tape) and re-writing yields the same tape', bound='all five fields symbolic; no loops beyond the 5-entry comparison'))
    return H

def a_harnesses(tier):
    return [AHarness('N1p_formula', 'c19_tl.cpp', 'h_n1p_formula', unwind=2, defs=['BLO=0', 'BHI=0'], timeout=600, backend=None,
                     what='bit-precise: with A=(end-start)/2^63 the time reported at integer time 2^63 is exactly fl(fl(end-start)+start)', bound='all binary64 start,end with fl(end-start) in [2^-900,2^960], |start|<=2^1000; loop-free')]

def endtime_known(work, ev):
    """D7 (known finding): is fl(fl(end-start)+start) == end for all inputs?  Bit-precise query; a model is replayed through the real TimeLine."""
    h = AHarness('N1p_endtime', 'c19_tl.cpp', 'h_n1p_formula', unwind=2, defs=['BLO=0', 'BHI=0', 'ENDTIME_EQ'], timeout=300)
    cf, mf, g = translate_harness(work, h)
    res = run_cbmc([cf, mf], unwind=2, timeout=300)
    base = {'wall_s': round(res.time, 1), 'rss_mb': res.rss_mb}
    if res.status == 'success':
        ev.add('N1p_endtime', 'reported end time equals the requested end time', 'all binary64 start,end in the stated domain', 'discharged', res.solver_s, extra=base); return None
    if res.status != 'failed':
        ev.add('N1p_endtime', 'reported end time equals the requested end time', '', 'inconclusive', res.solver_s, extra=base); ev.notes.append('N1p_endtime: cbmc %s' % res.status); return None
    words = res.nondet
    exe = work.path('c19_replay')
    if not os.path.exists(exe):
        rc, o, e, _, _ = sh(['g++', '-std=c++11', '-O1', '-w', '-I', SRC, '-I', cfg_dir(), os.path.join(VERIF, 'harness', 'c19_replay.cpp'), '-o', exe], timeout=300)
        if rc: raise Broken('c19 replay build: ' + e[-800:])
    rc, o, e, _, _ = sh([exe, '%016x' % words[0], '%016x' % words[1]], timeout=60); ev.replays += 1
    ev.add('N1p_endtime', 'reported end time equals the requested end time', 'all binary64 start,end in the stated domain', 'known-finding' if rc == 1 else 'inconclusive', res.solver_s, extra=dict(base, replay=o.strip()[-300:]))
    if rc == 1: return o.strip().split('\n')[-1]
    ev.notes.append('N1p_endtime: solver model did not reproduce on the real TimeLine: ' + o[-200:]); return None

def run(tier, only=None):
    ev = Evidence('C19', tier); work = Work('C19')
    ev.assumptions += ['conversion factor A = T*2^-63 with T in the normal range [2^-900,2^960] (so that scaling by the power-of-two step is exact, A8: no underflow/overflow)',
                       'request > 0 and not NaN; pre-state invariant: min,max powers of two with min<=max<=2^63 and current<2^63 (established by N2, preserved by N1: inductive)',
                       'Engine B: doubles as reals with power-of-two scaling exact; NaN/inf outside']
    ev.outside += ['T subnormal or overflowing', "the callers' loop (RHD driver) that turns `false` into a stop"]
    try:
        tv_run_b(work, 'c19_tl.cpp', [('tv_adv', 6)], ev, defs=['BLO=0', 'BHI=0'])
        hb = [h for h in harnesses(tier) if not only or h.name.startswith(only)]
        violations, broken = run_engine_b('C19', tier, hb, ev, work)
        ha = [h for h in a_harnesses(tier) if not only or h.name.startswith(only)]
        v2, b2 = run_engine_a('C19', tier, ha, ev, work); violations += v2; broken += b2
        if not only or only == 'N1p_endtime':
            kf = endtime_known(work, ev)
            if kf:
                listed = [k for k in known_for('C19') if k['id'] == 'D7-endtime-ulp'] if 'REPRODUCED-D7' in kf else []
                if listed: ev.known_hits.append('%s [%s]' % (listed[0]['what'], kf))
                else:
                    p = save_replay('C19', 'N1p_endtime', {'property': 'C19', 'harness': 'N1p_endtime', 'replay': kf}); violations.append(p)
    except Broken as b:
        violations, broken = [], [str(b)]
    work.clean()
    finish(ev, violations, '; '.join(broken) if broken else None)

def replay(path): return generic_replay(path, harnesses('thorough') + a_harnesses('thorough'))
