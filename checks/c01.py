import os, sys
from vlib import *

def harnesses(tier):
    Bq = 3 if tier == 'quick' else 6
    cf = ['-fopenmp']; dd = ['CMACIONIZE_VERIF_PHOTONBUFFER_SIZE=%du' % Bq]
    H = []
    combos = [(i, s0, n) for i in ((0, 2) if tier == 'quick' else (0, 1, 2)) for s0 in range(Bq) for n in range(Bq + 1)]
    for (i, s0, n) in combos:
        H.append(AHarness('H1_add_photons_i%d_s%d_n%d' % (i, s0, n), 'c01_packets.cpp', 'h_h1_add_photons', defs=dd + ['IDX=%d' % i, 'S0=%d' % s0, 'NN=%d' % n], cflags=cf, unwind=max(Bq + 2, 5), timeout=900, native_replay=False, witness=(s0 == Bq - 1 and n == Bq),
            what='MemorySpace::add_photons from an arbitrary valid pool state: sizes add up (target\' + new\' = s + n), a new buffer is returned iff the target became full, it was empty and inherits sub-grid and direction, every input packet appears exactly once and in order (tagged packets), earlier packets untouched, pool occupancy grows by exactly the number of new buffers',
            bound='buffer size %d (hook), target slot %d with fill level %d, input size %d (all combinations are separate runs); pool flags, cursor, other buffers symbolic' % (Bq, i, s0, n)))
    H += [
         AHarness('H1_free_buffer', 'c01_packets.cpp', 'h_h1_free_buffer', defs=dd, cflags=cf, unwind=max(Bq + 2, 5), timeout=900, native_replay=False,
            what='MemorySpace::free_buffer resets the buffer before releasing the slot: every free slot has size 0 afterwards (the pool invariant H1 assumes), occupancy decreases by one', bound='pool of 3 buffers, arbitrary valid state'),
         AHarness('H4_batch', 'c01_packets.cpp', 'h_h4_batch', defs=dd, cflags=cf, unwind=5, timeout=900, native_replay=False,
            what='DistributedPhotonSource::get_photon_batch inductive step from any done <= total: batch = min(max, total-done), done\' = done+batch <= total, 0 is returned iff the source is exhausted, other sources untouched, lock released (so the batches of a source sum to its total by induction)', bound='2 sources, all 64-bit counters symbolic; std::vector members given by their begin/end pointers')]
    H.append(AHarness('H4b_batch_race', 'c01_packets.cpp', None, threads=['h4b_t0', 'h4b_t1'], setup='h4b_setup', post='h4b_post', nsteps=10, unwind=5, unwindset={'main.0': 11}, defs=dd, cflags=cf, inline_all=True, timeout=1800, native_replay=False, tiers=('thorough',),
            what='get_photon_batch || get_photon_batch on the SAME source: the two batches add up to min(max0+max1, total-done) (nothing lost or handed out twice, including the racy unlocked early-out), done counter exact at quiescence, source lock released',
            bound='2 sources, totals and batch sizes symbolic in [0,255] (the SAT query took 10 min at this width and did not finish at 64 bits), all interleavings of the atomic operations within 10 scheduled steps (longer spins assumed away); sequentially consistent atomics'))
    return H

def run(tier, only=None):
    ev = Evidence('C01', tier); work = Work('C01')
    ev.stubs += ['hook H-PB: PHOTONBUFFER_SIZE overridden through CMACIONIZE_VERIF_PHOTONBUFFER_SIZE (guarded, add-only, commit 04d4ccf in /repo)']
    ev.assumptions += ['pool invariant: free slots hold empty buffers (established by free_buffer: H1_free_buffer)', 'capacity not exhausted (stated in the property)']
    ev.outside += ['the cross-thread termination protocol of TaskBasedIonizationSimulation (virtual task contexts, OpenMP region): not encodable as a whole', 'H2/H3/H5 (traversal, re-emission and premature-launch task bodies): H5 was written too (harness/c01_premature.cpp: cbmc runs out of 24 GB in symex, the real code indexes the PhotonBuffer array with a symbolic slot); H2 was built (harness/c01_traversal.cpp, kept for reference) but cbmc symex does not finish in 15-30 min even with 2 live directions (27-direction loop over symbolic buffer indices into arrays of PhotonPacket structs); not registered', 'concurrent callers of get_photon_batch (the primitives are C08)',
                   'paper argument: per-task conservation lemmas + C08 primitives => requested = terminated; written here, not machine-checked']
    try:
        hs = [h for h in harnesses(tier) if not only or h.name.startswith(only)]
        violations, broken = run_engine_a('C01', tier, hs, ev, work)
    except Broken as b:
        violations, broken = [], [str(b)]
    work.clean()
    finish(ev, violations, '; '.join(broken) if broken else None)

def replay(path): print('re-run the check'); return 0
