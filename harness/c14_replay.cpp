// Native replay for C14: the REAL RestartManager/RestartWriter (real libstdc++, real rename) on a temp directory.
// usage: c14_replay <dir> <max_backups> <dumps>   -> prints REPRODUCED <what> (exit 1) or HOLDS (exit 0); an abort is also a reproduction
#include "RestartManager.hpp"
#include <fstream>
#include <string>
static long readv(const std::string &f) { std::ifstream i(f, std::ios::binary); if (!i.is_open()) return 0; long v = -1; i.read((char *)&v, sizeof v); return i.gcount() == sizeof v ? v : -1; }
int main(int argc, char **argv) {
  std::string dir = argv[1]; unsigned long maxb = strtoul(argv[2], 0, 10), dumps = strtoul(argv[3], 0, 10);
  RestartManager m(dir, 0., maxb, 0., "");
  for (unsigned long k = 1; k <= dumps; ++k) {
    RestartWriter *w = m.get_restart_writer(nullptr); long v = (long)k; w->write(v); delete w;
    if (readv(dir + "/restart.dump") != (long)k) { printf("REPRODUCED dump %lu: main file does not hold the newest state\n", k); return 1; }
    unsigned long nb = (k - 1 < maxb) ? k - 1 : maxb;
    for (unsigned long i = 0; i < 10; ++i) {
      long want = i < nb ? (long)(k - 1 - i) : 0, got = readv(dir + "/restart." + std::to_string(i) + ".back");
      if (got != want) { printf("REPRODUCED max_backups=%lu after dump %lu: backup %lu holds version %ld, expected %ld\n", maxb, k, i, got, want); return 1; }
    }
  }
  printf("HOLDS\n"); return 0;
}
