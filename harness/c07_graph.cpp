// C07-G1 / C03-T3: REAL DensitySubGridCreator::create_subgrid wiring and REAL make_hydro_tasks / set_dependencies / reset_hydro_tasks
#include "TaskBasedRadiationHydrodynamicsSimulation.cpp"
extern "C" {
#ifndef NX
#define NX 2
#define NY 1
#define NZ 1
#endif
#define NSUB (NX * NY * NZ)
#define NTASK (18 * NSUB)
typedef DensitySubGridCreator< HydroDensitySubGrid > Creator;
typedef ThreadSafeVector< Task > TSV;
// light initialiser replacing the HydroDensitySubGrid constructor (by mangled name): only what the wiring / task graph reads
__attribute__((noinline)) void stub_subgrid_ctor(HydroDensitySubGrid *self, const double *box, const CoordinateVector< int_fast32_t > ncell) {
  self->_number_of_cells[0] = ncell[0]; self->_number_of_cells[1] = ncell[1]; self->_number_of_cells[2] = ncell[2]; self->_number_of_cells[3] = ncell[1] * ncell[2];
  self->_dependency._lock.set(false);
  for (int i = 0; i < 18; ++i) self->_hydro_tasks[i] = 999999;
}
// typed storage without running constructors (unions with empty ctor/dtor): cbmc then models structs field-wise, not as byte arrays
union UC { Creator c; UC() {} ~UC() {} }; union UV { TSV v; UV() {} ~UV() {} }; union UT { Task t[NTASK]; UT() {} ~UT() {} }; union US { HydroDensitySubGrid s[NSUB]; US() {} ~US() {} };
}
UC g_uc; UV g_uv; UT g_ut; US g_us;
extern "C" {
int n_new;
// operator new of the sub-grids is redirected here: typed static storage instead of an untyped heap block
__attribute__((noinline)) void *stub_new(unsigned long size) { __verif_check(size == sizeof(HydroDensitySubGrid) && n_new < NSUB); return &g_us.s[n_new++]; }
HydroDensitySubGrid *subs[NSUB]; AtomicValue<bool> slot_lock[NTASK]; bool per[3];
static inline Creator &creator(void) { return g_uc.c; }
static inline TSV &tvec(void) { return g_uv.v; }
static inline Task *T(void) { return g_ut.t; }
static inline void build_grid(void) {
  Creator &c = creator();
  const_cast<CoordinateVector< int_fast32_t > &>(c._number_of_subgrids) = CoordinateVector< int_fast32_t >(NX, NY, NZ);
  const_cast<CoordinateVector< int_fast32_t > &>(c._subgrid_number_of_cells) = CoordinateVector< int_fast32_t >(4, 4, 4);
#ifdef PFLAGS
  per[0] = (PFLAGS >> 2) & 1; per[1] = (PFLAGS >> 1) & 1; per[2] = PFLAGS & 1;                 // periodicity combination fixed per run (all 8 are run)
#else
  for (int k = 0; k < 3; ++k) per[k] = nondet_uchar() & 1;
#endif
  const_cast<CoordinateVector< bool > &>(c._periodicity) = CoordinateVector< bool >(per[0], per[1], per[2]);
  for (int i = 0; i < NSUB; ++i) subs[i] = c.create_subgrid(i);            // REAL wiring loop (constructor stubbed)
  *reinterpret_cast<HydroDensitySubGrid ***>(&c._subgrids) = subs;         // std::vector begin pointer (libstdc++ layout): get_subgrid(i) -> subs[i]
}
static inline int wrap(int v, int n, bool p, bool &out) { if (v < 0) { if (p) return n - 1; out = true; return 0; } if (v >= n) { if (p) return 0; out = true; return 0; } return v; }
// independent geometric reference for the neighbour of sub-grid g in direction (dx,dy,dz)
static inline uint32_t ref_ngb(int g, int dx, int dy, int dz) {
  int ix = g / (NY * NZ), iy = (g / NZ) % NY, iz = g % NZ; bool out = false;
  int cx = wrap(ix + dx, NX, per[0], out), cy = wrap(iy + dy, NY, per[1], out), cz = wrap(iz + dz, NZ, per[2], out);
  return out ? NEIGHBOUR_OUTSIDE : (uint32_t)((cx * NY + cy) * NZ + cz);
}
static inline void dir_signs(int c, int s[3]) {     // same reference as C03-T1
  s[0] = s[1] = s[2] = 0;
  if (c >= 1 && c <= 8) { int k = c - 1; s[0] = (k & 4) ? -1 : 1; s[1] = (k & 2) ? -1 : 1; s[2] = (k & 1) ? -1 : 1; }
  else if (c >= 9 && c <= 20) { int a = (c - 9) / 4, k = (c - 9) % 4; int u = (k & 2) ? -1 : 1, v = (k & 1) ? -1 : 1; if (a == 0) { s[1] = u; s[2] = v; } else if (a == 1) { s[0] = u; s[2] = v; } else { s[0] = u; s[1] = v; } }
  else if (c >= 21 && c <= 26) { int a = (c - 21) / 2; s[a] = ((c - 21) & 1) ? -1 : 1; }
}
// ---- C03-T3: neighbour wiring
__attribute__((noinline)) void h_t3_wiring(void) {
  build_grid();
  unsigned g = nondet_uint(), c = nondet_uint(); __CPROVER_assume(g < NSUB && c < 27);
  int s[3]; dir_signs(c, s);
  uint32_t n = subs[g]->get_neighbour(c);
  __verif_check(n == ref_ngb(g, s[0], s[1], s[2]));                                          // the geometric neighbour, OUTSIDE exactly at non-periodic walls
  if (n != NEIGHBOUR_OUTSIDE) { __verif_check(n < NSUB); __verif_check(subs[n]->get_neighbour(TravelDirections::output_to_input_direction(c)) == g); }   // mutual
  __verif_check(subs[g]->get_neighbour(0) == g);
}
// ---- C07-G1: constructed task graph
static inline int layer(int type) {
  switch (type) { case TASKTYPE_GRADIENTSWEEP_INTERNAL: case TASKTYPE_GRADIENTSWEEP_EXTERNAL_NEIGHBOUR: case TASKTYPE_GRADIENTSWEEP_EXTERNAL_BOUNDARY: return 0;
    case TASKTYPE_SLOPE_LIMITER: return 1; case TASKTYPE_PREDICT_PRIMITIVES: return 2;
    case TASKTYPE_FLUXSWEEP_INTERNAL: case TASKTYPE_FLUXSWEEP_EXTERNAL_NEIGHBOUR: case TASKTYPE_FLUXSWEEP_EXTERNAL_BOUNDARY: return 3;
    case TASKTYPE_UPDATE_CONSERVED: return 4; case TASKTYPE_UPDATE_PRIMITIVES: return 5; default: return -1; } }
static inline void build_graph(void) {
  build_grid();
  TSV &v = tvec(); const_cast<size_t &>(v._size) = NTASK; v._vector = T(); v._locks = slot_lock; v._number_taken.set(0); v._current_index.set(0); v._max_number_taken.set(0); v._total_number_taken.set(0);
  for (int i = 0; i < NTASK; ++i) { slot_lock[i].set(false); T()[i]._number_of_children = 0; T()[i]._dependency[0] = nullptr; T()[i]._dependency[1] = nullptr; T()[i]._buffer = 999999; T()[i]._subgrid = 999999; T()[i]._type = -1; T()[i]._interaction_direction = 0; T()[i]._number_of_unfinished_parents.set(77); }
  Creator &c = creator();
  for (unsigned i = 0; i < NSUB; ++i) make_hydro_tasks(v, i, c);
  for (unsigned i = 0; i < NSUB; ++i) set_dependencies(i, c, v);
  for (unsigned i = 0; i < NSUB; ++i) reset_hydro_tasks(v, *subs[i]);
}
__attribute__((noinline)) void h_g1_graph(void) {
  build_graph();
  const size_t ntask = tvec()._number_taken.value();
  __verif_check(ntask <= NTASK);
  size_t t = nondet_ulong(); __CPROVER_assume(t < ntask);
  // the probe task is selected by a chain of concrete-index comparisons (cheaper and more robust in cbmc than a symbolic index into an array of structs)
  union UP { Task t; UP() {} ~UP() {} } up;
  for (size_t i = 0; i < NTASK; ++i) if (i == t) __builtin_memcpy(&up.t, &T()[i], sizeof(Task));
  Task &tk = up.t;
  const int ty = tk.get_type(), ly = layer(ty);
  __verif_check(ly >= 0);                                                                       // a hydro task type
  const size_t g = tk.get_subgrid(); __verif_check(g < NSUB);
  // (1) children: at most 7, valid live indices, exactly one layer down
  __verif_check(tk.get_number_of_children() <= 7);
  for (unsigned k = 0; k < 7; ++k) if (k < tk.get_number_of_children()) { size_t ch = tk.get_child(k); __verif_check(ch < ntask); int cty = -1; for (size_t i = 0; i < NTASK; ++i) if (i == ch) cty = T()[i].get_type(); __verif_check(layer(cty) == ly + 1); }
  // (2) the counter set by reset_hydro_tasks equals the number of (parent, slot) entries pointing at t
  unsigned parents = 0;
  for (size_t p = 0; p < NTASK; ++p) if (p < ntask) for (unsigned k = 0; k < 7; ++k) if (k < T()[p].get_number_of_children() && T()[p].get_child(k) == t) ++parents;
  __verif_check(tk.get_number_of_unfinished_parents() == parents);
  // (3) tasks that can start immediately are exactly the gradient sweeps; the last layer has no children
  __verif_check((parents == 0) == (ly == 0));
  __verif_check((tk.get_number_of_children() == 0) == (ly == 5));
  // (4) lock set == sub-grids touched; two DIFFERENT locks ordered by sub-grid index for pair tasks
  ThreadLock *own = subs[g]->get_dependency();
  if (ty == TASKTYPE_GRADIENTSWEEP_EXTERNAL_NEIGHBOUR || ty == TASKTYPE_FLUXSWEEP_EXTERNAL_NEIGHBOUR) {
    const size_t b = tk.get_buffer(); __verif_check(b < NSUB);
    __verif_check(b == subs[g]->get_neighbour(tk.get_interaction_direction()));              // the partner is the neighbour in the task's direction
    ThreadLock *oth = subs[b]->get_dependency();
    if (b == g) {
      // periodic axis with a single sub-grid: the partner is the sub-grid itself -> exactly ONE lock (a task holding the same lock twice could never be locked)
      __verif_check(tk._dependency[0] == own && tk._dependency[1] == nullptr);
    } else {
      __verif_check((tk._dependency[0] == own && tk._dependency[1] == oth) || (tk._dependency[0] == oth && tk._dependency[1] == own));
      __verif_check(tk._dependency[0] != tk._dependency[1]);                                    // two different locks
      if (g < b) __verif_check(tk._dependency[0] == own); else __verif_check(tk._dependency[0] == oth);   // global lock order by sub-grid index (no dining philosophers)
    }
  } else {
    __verif_check(tk._dependency[0] == own && tk._dependency[1] == nullptr);
  }
}
// (5) every face of every sub-grid is covered exactly once per phase
__attribute__((noinline)) void h_g1_faces(void) {
  build_graph();
  unsigned g = nondet_uint(), ax = nondet_uint(); __CPROVER_assume(g < NSUB && ax < 3);
  const int dp = TRAVELDIRECTION_FACE_X_P + 2 * ax, dn = dp + 1;
  for (int phase = 0; phase < 2; ++phase) {
    const int sp = (phase ? 10 : 1) + 2 * ax, sn = sp + 1;
    const int TN = phase ? TASKTYPE_FLUXSWEEP_EXTERNAL_NEIGHBOUR : TASKTYPE_GRADIENTSWEEP_EXTERNAL_NEIGHBOUR, TB = phase ? TASKTYPE_FLUXSWEEP_EXTERNAL_BOUNDARY : TASKTYPE_GRADIENTSWEEP_EXTERNAL_BOUNDARY;
    const size_t tp = subs[g]->get_hydro_task(sp), tn = subs[g]->get_hydro_task(sn);
    const uint32_t np = subs[g]->get_neighbour(dp), nn = subs[g]->get_neighbour(dn);
    __verif_check(tp < NTASK && T()[tp].get_subgrid() == g && T()[tp].get_interaction_direction() == dp);
    if (np == NEIGHBOUR_OUTSIDE) __verif_check(T()[tp].get_type() == TB); else { __verif_check(T()[tp].get_type() == TN); __verif_check(T()[tp].get_buffer() == np); }
    if (nn == NEIGHBOUR_OUTSIDE) { __verif_check(tn < NTASK && T()[tn].get_type() == TB && T()[tn].get_subgrid() == g && T()[tn].get_interaction_direction() == dn); }
    else { __verif_check(tn == NO_TASK); size_t o = subs[nn]->get_hydro_task(sp); __verif_check(T()[o].get_type() == TN && T()[o].get_buffer() == g); }   // the lower face is covered by the lower neighbour's positive task
  }
}
}
