/*******************************************************************************
 * This file is part of CMacIonize
 * Copyright (C) 2020 Bert Vandenbroucke (bert.vandenbroucke@gmail.com)
 *
 * CMacIonize is free software: you can redistribute it and/or modify
 * it under the terms of the GNU Affero General Public License as published by
 * the Free Software Foundation, either version 3 of the License, or
 * (at your option) any later version.
 *
 * CMacIonize is distributed in the hope that it will be useful,
 * but WITOUT ANY WARRANTY; without even the implied warranty of
 * MERCHANTABILITY or FITNESS FOR A PARTICULAR PURPOSE. See the
 * GNU Affero General Public License for more details.
 *
 * You should have received a copy of the GNU Affero General Public License
 * along with CMacIonize. If not, see <http://www.gnu.org/licenses/>.
 ******************************************************************************/

/**
 * @file Pegase3DataLocation.hpp
 *
 * @brief CMake configured file storing the location of the Pegase 3 stellar
 * spectrum files on the local system.
 *
 * This file should never be edited directly. Instead, edit
 * Pegase3DataLocation.hpp.in.
 *
 * @author Bert Vandenbroucke (bert.vandenbroucke@ugent.be)
 */
#ifndef PEGASE3DATALOCATION_HPP
#define PEGASE3DATALOCATION_HPP

#define PEGASE3DATALOCATION "/repo/_build/data/Pegase3/"

#endif // PEGASE3DATALOCATION_HPP
