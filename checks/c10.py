import os, sys
from vlib import *
import c04

def run(tier, only=None):
    """C10-L1: split and unsplit sweeps compute the same cell pairs (the F2 harnesses of C04, registered for C10 as well)"""
    ev = Evidence('C10', tier); work = Work('C10')
    ev.stubs += ['Hydro::do_flux_calculation / do_gradient_calculation: recording stubs with the same signatures']
    ev.assumptions += ['L1: a block of 2n x m x k cells as one sub-grid and as two sub-grids joined along an axis computes the same set of (left cell, right cell, direction) pairs: inner sweeps cover every interior face once, outer sweeps pair the upper-wall cells of the left grid with the lower-wall cells of the right grid at EQUAL transverse indices; with C07-G1 (every face of every sub-grid covered once per phase) the operand multiset per cell is layout independent',
                       'L2: bitwise equality of sums under different accumulation orders is false in binary64 (the property itself says "up to round-off"): nothing more is claimed']
    ev.outside += ['numeric equality of cell states across layouts / thread counts; equality with a plain sequential execution as numbers', 'L3 single-thread pop-order determinism: covered structurally by C08 QS_get_task (result is a function of the queue and lock state)']
    violations = []; broken = []
    try:
        ha = [h for h in c04.a_harnesses(tier) if not only or h.name.startswith(only)]
        v, b = run_engine_a('C10', tier, ha, ev, work); violations += v; broken += b
    except Broken as b:
        broken.append(str(b))
    work.clean()
    finish(ev, violations, '; '.join(broken) if broken else None)

def replay(path): print('re-run the check'); return 0
