/* native build of the translated C (translation validation / replay) */
#ifndef NATIVE_PRELUDE_H
#define NATIVE_PRELUDE_H
void __CPROVER_assume(int);
void __verif_native_assert(int, const char *);
#define __CPROVER_assert(c, m) __verif_native_assert(!!(c), m)
#define __CPROVER_atomic_begin() ((void)0)
#define __CPROVER_atomic_end() ((void)0)
#endif
