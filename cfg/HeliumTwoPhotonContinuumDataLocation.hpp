/*******************************************************************************
 * This file is part of CMacIonize
 * Copyright (C) 2016 Bert Vandenbroucke (bert.vandenbroucke@gmail.com)
 *
 * CMacIonize is free software: you can redistribute it and/or modify
 * it under the terms of the GNU Affero General Public License as published by
 * the Free Software Foundation, either version 3 of the License, or
 * (at your option) any later version.
 *
 * CMacIonize is distributed in the hope that it will be useful,
 * but WITOUT ANY WARRANTY; without even the implied warranty of
 * MERCHANTABILITY or FITNESS FOR A PARTICULAR PURPOSE. See the
 * GNU Affero General Public License for more details.
 *
 * You should have received a copy of the GNU Affero General Public License
 * along with CMacIonize. If not, see <http://www.gnu.org/licenses/>.
 ******************************************************************************/

/**
 * @file HeliumTwoPhotonContinuumDataLocation.hpp
 *
 * @brief CMake configured file storing the location of the helium 2-photon
 * continuum spectrum data file on the local system.
 *
 * This file should never be edited directly. Instead, edit
 * HeliumTwoPhotonContinuumDataLocation.hpp.in.
 *
 * @author Bert Vandenbroucke (bv7@st-andrews.ac.uk)
 */
#ifndef HELIUMTWOPHOTONCONTINUUMDATALOCATION_HPP
#define HELIUMTWOPHOTONCONTINUUMDATALOCATION_HPP

#define HELIUMTWOPHOTONCONTINUUMDATALOCATION                                   \
  "/repo/_build/data/He2q.dat"

#endif // HELIUMTWOPHOTONCONTINUUMDATALOCATION_HPP
