#include "TaskBasedRadiationHydrodynamicsSimulation.cpp"
extern "C" {
int nondet_int(void); void __CPROVER_assume(int); void __verif_check(int);
__attribute__((noinline)) void h_g1(void){
  bool px = nondet_int() & 1, py = nondet_int() & 1, pz = nondet_int() & 1;
  Box<> box(CoordinateVector<>(0.), CoordinateVector<>(1.));
  DensitySubGridCreator<HydroDensitySubGrid> &gc = *new DensitySubGridCreator<HydroDensitySubGrid>(box, CoordinateVector<int_fast32_t>(NX, NY, NZ), CoordinateVector<int_fast32_t>(NX, NY, NZ), CoordinateVector<bool>(px, py, pz));
  const uint_fast32_t n = NX * NY * NZ;
  for (uint_fast32_t i = 0; i < n; ++i) gc._subgrids[i] = gc.create_subgrid(i);
  ThreadSafeVector<Task> &tasks = *new ThreadSafeVector<Task>(18 * n + 1);
  for (uint_fast32_t i = 0; i < n; ++i) make_hydro_tasks(tasks, i, gc);
  for (uint_fast32_t i = 0; i < n; ++i) set_dependencies(i, gc, tasks);
  for (uint_fast32_t i = 0; i < n; ++i) reset_hydro_tasks(tasks, *gc._subgrids[i]);
  // probe one task slot of one subgrid
  int g = nondet_int(), k = nondet_int(); __CPROVER_assume(g >= 0 && g < (int)n && k >= 0 && k < 18);
  size_t t = gc._subgrids[g]->get_hydro_task(k);
  if (t != NO_TASK) {
    Task &T = tasks[t];
    __verif_check(T._dependency[0] != nullptr);
    __verif_check(T._dependency[0] != T._dependency[1]);     /* D2 */
    __verif_check(T._number_of_children <= 7);
    /* in-degree == counter */
    unsigned indeg = 0;
    for (size_t u = 0; u < 18 * n; ++u) { if (!tasks._locks[u].value()) continue; for (unsigned c = 0; c < tasks._vector[u]._number_of_children; ++c) if (tasks._vector[u]._children[c] == t) ++indeg; }
    __verif_check(indeg == T._number_of_unfinished_parents.value());
  }
}
}
