import os, sys
from vlib import *

def harnesses(tier):
    H = []
    def seq(name, t, setup, post, n, what, bound, defs=(), tiers=('quick', 'thorough'), timeout=900, inner=5):
        dd = ['NSLOT=3', 'NTHR=2', 'PMINFREE=1', 'TRYGET=get_task'] + list(defs)
        # later -D wins: put overrides last
        H.append(AHarness(name, 'c08_conc.cpp', None, threads=t, setup=setup, post=post, nsteps=n, unwind=inner, unwindset={'main.0': n + 1}, defs=dd, inline_all=True, timeout=timeout, native_replay=False, tiers=tiers, what=what,
                          bound=bound + '; all interleavings of the atomic operations within %d scheduled steps (longer spins assumed away); sequentially consistent atomics' % n))
    seq('P1_get_get', ['p1_t0', 'p1_t1'], 'p1_setup', 'p1_post', 20, 'get_free_element_safe || get_free_element_safe from an arbitrary valid pool state: never the same slot, occupancy counter == flags set == initial + successes, nobody refused when enough slots are free', 'pool of 3 slots, >=1 free, cursor arbitrary (wrap-around incl. SIZE_MAX), 2 threads')
    seq('P1_get_get_4slot', ['p1_t0', 'p1_t1'], 'p1_setup', 'p1_post', 24, 'two concurrent getters on a 4-slot pool (longer wrap-around scans than the 3-slot quick harness)', 'pool of 4 slots, >=1 free, cursor arbitrary', defs=['NSLOT=4'], tiers=('thorough',), timeout=1800)
    seq('P2_get_free', ['p2_t0', 'p2_t1'], 'p2_setup', 'p2_post', 18, 'get_free_element_safe || free_element(j): occupancy exact at quiescence, released slot available again, getter served when a slot was free', 'pool of 3 slots incl. full pool, j any held slot')
    seq('A1_increments', ['a1_inc0', 'a1_inc1'], 'a1_setup', 'a1_post', 6, 'pre_increment || post_add(3): no lost update, return values are the two possible linearisations', 'counter arbitrary 64-bit value (wrap included)')
    seq('A2_max', ['a2_max0', 'a2_max1'], 'a2_setup', 'a2_post', 10 if tier == 'quick' else 14, 'max(a) || max(b): final value is max(initial,a,b)', 'all 64-bit values; CAS retry loops within the step bound')
    seq('A3_lock', ['a3_lock0', 'a3_lock1'], 'a3_setup', 'a3_post', 6, 'lock || lock: at most one succeeds, exactly one if the lock was free', 'flag arbitrary')
    seq('L1_lock_dependency', ['l1_t0', 'l1_t1'], 'l1_setup', 'l1_post', 12, 'Task::lock_dependency || lock_dependency on tasks whose locks overlap in opposite roles: at most one succeeds, a failed attempt rolls back (no lock left behind), winners hold all their locks', 'two locks with arbitrary initial state, each task with 1 or 2 dependencies')
    # two-thread queue races at minimal size (queue operations run entirely under the queue lock: what can go wrong concurrently is a lost/duplicated entry)
    seq('Q1_get_get', ['q1_t0', 'q1_t1'], 'q1_setup', 'q1_post', 12, 'TaskQueue::get_task || get_task on a queue with <=1 entry: the entry is handed out exactly once, queue lock released', 'queue of <=1 entry, tasks without dependencies', defs=['QMAX=1', 'NODEPS', 'NSLOT=2'], timeout=1200, inner=4)
    seq('Q1_get_tryget', ['q1_t0', 'q1_t1'], 'q1_setup', 'q1_post_try', 12, 'get_task || try_get_task on a queue with <=1 entry: handed out at most once; try_get_task may fail only under lock contention', 'queue of <=1 entry, tasks without dependencies', defs=['QMAX=1', 'NODEPS', 'NSLOT=2', 'TRYGET=try_get_task'], timeout=1200, inner=4)
    seq('Q2_add_get', ['q2_t0', 'q2_t1'], 'q2_setup', 'q2_post', 12, 'add_task || get_task: no lost or duplicated entry, order preserved', 'queue of <=1 entry, tasks without dependencies', defs=['QMAX=1', 'NODEPS', 'NSLOT=3'], timeout=1200, inner=4)
    # sequential inductive twins with the full state space: resources, order, gap closing
    seq('QS_get_task', ['qs_t0'], 'q1_setup', 'q1_post', 8, 'sequential get_task from ANY valid queue/lock state: hands out the LAST lockable entry only with its resource held, closes the gap keeping the order, releases the queue lock; NO_TASK only when nothing is lockable', 'queue of <=3 entries over 3 task slots, 2 resource locks arbitrary', defs=['QMAX=3'], timeout=1200)
    seq('QS_try_get_task', ['qs_t0'], 'q1_setup', 'q1_post', 8, 'sequential try_get_task (uncontended) behaves as get_task', 'as QS_get_task', defs=['QMAX=3', 'TRYGET=try_get_task'], timeout=1200)
    seq('LF_add', ['lf_t0', 'lf_t1'], 'lf_setup', 'lf_post', 10, 'LockFree::add on a double by two adders loses no update', 'small integer values (sums exact), CAS retries within the bound', tiers=('thorough',))
    # sequential twins: one thread, arbitrary valid pre-state (inductive step for pools/queues)
    seq('S_get', ['p1_t0'], 'p1_setup', 'p1_post', 12, 'sequential inductive step of get_free_element_safe from any valid state incl. FULL pool (returns size, state unchanged)', 'pool of 3 slots, any occupancy', defs=['NTHR=1', 'PMINFREE=0'])
    return H

def run(tier, only=None):
    ev = Evidence('C08', tier); work = Work('C08')
    ev.assumptions += ['A-seq sequentialisation: every thread body (real code, fully inlined by clang) is a step machine yielding before each atomic instruction; plain (non-atomic) accesses are grouped with the preceding atomic step',
                       'sequentially consistent atomics (all std::atomic operations in the code are seq_cst); relaxed memory models outside', 'spin/CAS-retry loops bounded by the step budget: executions that spin longer are assumed away (no liveness claim beyond the bound)',
                       'pre-states: arbitrary VALID container states (occupancy == flags set, queue entries distinct live slots)']
    ev.outside += ['> 3 threads; histories not decomposable into the checked pairs; fairness / liveness under unbounded spinning']
    try:
        hs = [h for h in harnesses(tier) if not only or h.name.startswith(only)]
        violations, broken = run_engine_a('C08', tier, hs, ev, work)
    except Broken as b:
        violations, broken = [], [str(b)]
    work.clean()
    finish(ev, violations, '; '.join(broken) if broken else None)

def replay(path): print('C08 counterexamples are cbmc traces over the translated real code (schedule + state); re-run the check'); return 0
