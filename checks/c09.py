import os, sys
from vlib import *

def harnesses(tier):
    H = []
    cf = ['-fopenmp']
    H.append(BHarness('R_IonizationVariables', 'c09_restart.cpp', 'h_r_ionization_variables', cflags=cf, timeout=900, maxsteps=3000000, what='IonizationVariables: write -> tape -> restart ctor restores every dumped field (types and order checked by the tape); write(read(write(x))) == write(x)', bound='all fields symbolic; loops over ions/heating terms concrete'))
    H.append(BHarness('R_HydroVariables', 'c09_restart.cpp', 'h_r_hydro_variables', cflags=cf, timeout=900, maxsteps=3000000, what='HydroVariables: all primitives, conserved, deltas, 5 gradients, acceleration, energy terms restored; rewrite identical', bound='all fields symbolic'))
    H.append(BHarness('R_Box', 'c09_restart.cpp', 'h_r_box', cflags=cf, timeout=900, what='Box / CoordinateVector restart pair', bound='all fields symbolic'))
    shapes = [(1, 1, 2), (1, 1, 3)] if tier == 'quick' else [(1, 1, 1), (1, 1, 2), (1, 1, 3), (2, 1, 1), (3, 1, 1), (1, 3, 1)]
    for s in shapes:
        H.append(BHarness('R_HydroDensitySubGrid_%dx%dx%d' % s, 'c09_restart.cpp', 'h_r_subgrid', defs=['NCX=%d' % s[0], 'NCY=%d' % s[1], 'NCZ=%d' % s[2]], cflags=cf, timeout=1200, maxsteps=6000000,
            what='HydroDensitySubGrid built by the ordinary constructor from a symbolic box, dumped and restarted: anchor, cell size, INVERSE cell size, cell counts (incl. the derived ny*nz), volume, inverse volume, areas, neighbours, owner, cell variables, limiters equal field by field; rewrite yields the same tape',
            bound='%dx%dx%d cells, box symbolic reals (sides > 0), neighbour table / owner / selected cell fields symbolic' % s))
    H.append(BHarness('R_SingleSupernova', 'c09_sources.cpp', 'h_r_supernova', cflags=cf, timeout=900, maxsteps=3000000, what='SingleSupernovaPhotonSourceDistribution dumped before or after the explosion: position, lifetime, luminosity, energy and the exploded flag restored, same number of sources right after the restart; rewrite identical', bound='all fields symbolic, flag either value'))
    H.append(BHarness('R_SingleStar', 'c09_sources.cpp', 'h_r_singlestar', cflags=cf, timeout=900, maxsteps=3000000, what='SingleStarPhotonSourceDistribution: position and luminosity restored; rewrite identical', bound='all fields symbolic'))
    H.append(BHarness('R_AlveliusTurbulenceForcing', 'c09_alvelius.cpp', 'h_r_alvelius', cflags=cf, timeout=1200, maxsteps=8000000, what='AlveliusTurbulenceForcing (optional component): restart constructor on a free tape followed by write_restart_file reproduces exactly the consumed entries (count, types, values): reader and writer agree on order, types and all three table lengths; no out-of-bounds table access', bound='1x2x3 sub-grids of 1x2x3 cells, 2 modes (counts concrete by tape position, pairwise different per axis), every double entry symbolic'))
    for nm, ent in (('UniformRandom', 'h_r_uniformrandom'), ('DiscPatch', 'h_r_discpatch'), ('Caproni', 'h_r_caproni')):
        H.append(BHarness('R_%sSources' % nm, 'c09_random_sources.cpp', ent, cflags=cf, timeout=1200, maxsteps=8000000, what='%sPhotonSourceDistribution (optional component, dumped without an output file): the restart constructor run in storage with arbitrary previous content leaves no output-file pointer behind (the destructor and update() read it), and restart constructor + write_restart_file reproduce exactly the consumed tape entries (Caproni: pointer clause and abort-free dump only, it rebuilds derived lists after reading)' % nm, bound='free tape: counts 1..3 by position, every double symbolic, has_output = false; object storage pre-filled with symbolic words'))
    return H

def run(tier, only=None):
    ev = Evidence('C09', tier); work = Work('C09')
    ev.stubs += ['RestartWriter / RestartReader -> typed tape (env/tape/verif_tape.hpp): every write appends (type tag, value), every read checks the tag']
    ev.assumptions += ['IEEE-UF: derived fields compared as terms (n/L vs 1/(L/n) are different terms unless provably equal); candidates are replayed on the natively compiled real classes']
    ev.outside += ['headline clause: a whole hydro run dumped at step k and restarted is bit-identical at every later step; chains of restarts; optional components (mask, turbulence, random source distributions); ParameterFile/YAMLDictionary restart (strings/maps); LiveOutputManager',
                   'this is the unit-level NECESSARY condition (component state equality), not sufficient for whole-run equivalence']
    try:
        hb = [h for h in harnesses(tier) if not only or h.name.startswith(only)]
        violations, broken = run_engine_b('C09', tier, hb, ev, work)
    except Broken as b:
        violations, broken = [], [str(b)]
    work.clean()
    finish(ev, violations, '; '.join(broken) if broken else None)

def replay(path): return generic_replay(path, harnesses('thorough'))
