// C06 real-model clauses (DESIGN.md 8.7): the REAL IonizationStateCalculator H/He solver and metal-stage routine and the
// REAL ChargeTransferRates, executed symbolically with every double operation read as the exact real operation.
#include "ChargeTransferRates.cpp"
#include "IonizationStateCalculator.cpp"
// environment stub: recombination rates are positive (documented contract of RecombinationRates; the shipped Verner fits are data)
class NDRates : public RecombinationRates {
public:
  double r[NUMBER_OF_IONNAMES];
  virtual double get_recombination_rate(const int_fast32_t ion, const double T) const { return r[ion]; }
};
extern "C" {
// R1: hydrogen-only gas through the coupled H/He solver (AHe = 0, no helium-ionizing photons), as the thermal balance uses it
__attribute__((noinline)) void h_r1_hhe_hydrogen_only(void) {
  const double alphaH = nondet_double(), jH = nondet_double(), nH = nondet_double(), T = nondet_double();
  __CPROVER_assume((alphaH >= 1.e-20) & (alphaH <= 1.e-16) & (jH >= 1.e-20) & (jH <= 1.e3) & (nH >= 1.e4) & (nH <= 1.e12) & (T >= 100.) & (T <= 1.e5));
  double h0 = -1., he0 = -1.;
  IonizationStateCalculator::compute_ionization_states_hydrogen_helium(alphaH, 0., jH, 0., nH, 0., T, h0, he0);
  __verif_check(h0 > 0.);
  __verif_check(h0 < 1.);                       // a non-zero radiation field always ionizes something
  __verif_check(he0 == 1.);                     // no helium-ionizing photons: helium neutral
  // photoionization-recombination balance  n alpha (1-x)^2 = x J, i.e. C (1-x)^2 = x with C = alpha n / J
  // (relative residual within the solver's series cut-off of 1e-3)
  const double ch = alphaH * nH / jH;
  const double lhs = ch * (1. - h0) * (1. - h0);
  __verif_check((lhs - h0 <= 1.e-3 * h0) & (h0 - lhs <= 1.e-3 * h0));
}
// R1b: the same hydrogen-only gas (AHe = 0) but WITH helium-ionizing photons in the spectrum (J_He > 0): the helium half of the solver runs
// on an abundance of zero and must not poison the hydrogen result
__attribute__((noinline)) void h_r1b_hhe_hydrogen_only_jhe(void) {
  const double alphaH = nondet_double(), alphaHe = nondet_double(), jH = nondet_double(), jHe = nondet_double(), nH = nondet_double(), T = nondet_double();
  __CPROVER_assume((alphaH >= 1.e-20) & (alphaH <= 1.e-16) & (alphaHe >= 1.e-20) & (alphaHe <= 1.e-16) & (jH >= 1.e-20) & (jH <= 1.e3) & (jHe >= 1.e-20) & (jHe <= 1.e3) & (nH >= 1.e4) & (nH <= 1.e12) & (T >= 100.) & (T <= 1.e5));
  double h0 = -1., he0 = -1.;
  IonizationStateCalculator::compute_ionization_states_hydrogen_helium(alphaH, alphaHe, jH, jHe, nH, 0., T, h0, he0);
  __verif_check(h0 > 0.); __verif_check(h0 < 1.);
  __verif_check(he0 > 0.); __verif_check(he0 <= 1.);
  const double ch = alphaH * nH / jH;
  const double lhs = ch * (1. - h0) * (1. - h0);
  __verif_check((lhs - h0 <= 1.e-3 * h0) & (h0 - lhs <= 1.e-3 * h0));
}
// I2: metal stages for every positive electron density
__attribute__((noinline)) void h_i2_metals(void) {
  NDRates rates; ChargeTransferRates ctr; IonizationVariables iv;
  double j[12];
  for (int i = 0; i < 12; ++i) { j[i] = nondet_double(); __CPROVER_assume((j[i] >= 0.) & (j[i] <= 1.e3)); }
  for (int i = 0; i < NUMBER_OF_IONNAMES; ++i) { rates.r[i] = nondet_double(); __CPROVER_assume((rates.r[i] >= 1.e-22) & (rates.r[i] <= 1.e-14)); }
  const double ne = nondet_double(), T = nondet_double(), nh0 = nondet_double(), nhe0 = nondet_double(), nhp = nondet_double();
  __CPROVER_assume((ne > 0.) & (ne <= 1.e13) & (T >= 100.) & (T <= 1.e5) & (nh0 >= 0.) & (nh0 <= 1.e12) & (nhe0 >= 0.) & (nhe0 <= 1.e12) & (nhp >= 0.) & (nhp <= 1.e12));
  IonizationStateCalculator::compute_ionization_states_metals(j, ne, T, T * 1.e-4, nh0, nhe0, nhp, rates, ctr, iv);
  for (int i = 0; i < NUMBER_OF_IONNAMES; ++i) {
    if (i == ION_H_n || i == ION_He_n) continue;
    const double f = iv.get_ionic_fraction(i);
    __verif_check((f >= 0.) & (f <= 1.));
  }
  __verif_check(iv.get_ionic_fraction(ION_C_p1) + iv.get_ionic_fraction(ION_C_p2) <= 1.);
  __verif_check(iv.get_ionic_fraction(ION_N_n) + iv.get_ionic_fraction(ION_N_p1) + iv.get_ionic_fraction(ION_N_p2) <= 1.);
  __verif_check(iv.get_ionic_fraction(ION_O_n) + iv.get_ionic_fraction(ION_O_p1) <= 1.);
  __verif_check(iv.get_ionic_fraction(ION_Ne_n) + iv.get_ionic_fraction(ION_Ne_p1) <= 1.);
  __verif_check(iv.get_ionic_fraction(ION_S_p1) + iv.get_ionic_fraction(ION_S_p2) + iv.get_ionic_fraction(ION_S_p3) <= 1.);
}
// I3: the dispatcher's special cases - no radiation (cell stays/gets neutral) and no gas (vacuum): every fraction is exactly 0 or 1,
// stage sums <= 1, heating estimators normalised, and neither the rates nor the solvers are touched (REAL calculate_ionization_state)
union UCalc { IonizationStateCalculator c; UCalc() {} ~UCalc() {} }; UCalc g_calc;
__attribute__((noinline)) void h_i3_special(void) {
  IonizationStateCalculator &c = g_calc.c;                       // object storage without constructor: the special cases must not read it
  IonizationVariables iv;
  const double jfac = nondet_double(), hfac = nondet_double(), n = nondet_double(), T = nondet_double(), miH = nondet_double(), hH = nondet_double();
  __CPROVER_assume((jfac > 0.) & (hfac > 0.) & (n >= 0.) & (T >= 100.) & (miH >= 0.) & (hH >= 0.));
  __CPROVER_assume((miH == 0.) | (n == 0.));                     // no hydrogen-ionizing radiation, or no gas
  iv.set_number_density(n); iv.set_temperature(T); iv._mean_intensity[ION_H_n] = miH;
  for (int i = 0; i < NUMBER_OF_IONNAMES; ++i) { if (i != ION_H_n) { iv._mean_intensity[i] = nondet_double(); __CPROVER_assume(iv._mean_intensity[i] >= 0.); } iv._ionic_fractions[i] = nondet_double(); }
  iv._heating[HEATINGTERM_H] = hH;
  c.calculate_ionization_state(jfac, hfac, iv);
  const double expect = (n > 0.) ? 1. : 0.;
  __verif_check(iv.get_ionic_fraction(ION_H_n) == expect);
  __verif_check(iv.get_ionic_fraction(ION_He_n) == expect);
  for (int i = 0; i < NUMBER_OF_IONNAMES; ++i) { const double f = iv.get_ionic_fraction(i); __verif_check((f == 0.) | (f == 1.)); }
  __verif_check(iv.get_ionic_fraction(ION_C_p1) + iv.get_ionic_fraction(ION_C_p2) <= 1.);
  __verif_check(iv.get_ionic_fraction(ION_N_n) + iv.get_ionic_fraction(ION_N_p1) + iv.get_ionic_fraction(ION_N_p2) <= 1.);
  __verif_check(iv.get_ionic_fraction(ION_O_n) + iv.get_ionic_fraction(ION_O_p1) <= 1.);
  __verif_check(iv.get_ionic_fraction(ION_Ne_n) + iv.get_ionic_fraction(ION_Ne_p1) <= 1.);
  __verif_check(iv.get_ionic_fraction(ION_S_p1) + iv.get_ionic_fraction(ION_S_p2) + iv.get_ionic_fraction(ION_S_p3) <= 1.);
  __verif_check(iv._heating[HEATINGTERM_H] == hfac * hH);       // the heating estimator is normalised exactly once
}
}
