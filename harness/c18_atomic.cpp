// C18: REAL VernerCrossSections::get_cross_section_verner on ARBITRARY table entries with the tables' sign pattern,
// against the published fitting formula (Verner & Yakovlev 1995 / Verner et al. 1996, routine phfit2) transcribed here;
// REAL Utilities::locate on arbitrary sorted tables.
#include "VernerCrossSections.cpp"
#include "Utilities.hpp"
union UV2 { VernerCrossSections v; UV2() {} ~UV2() {} };
UV2 g_v;
extern "C" {
#ifndef NZ_
#define NZ_ 4
#endif
typedef std::vector< double > V1; typedef std::vector< V1 > V2; typedef std::vector< V2 > V3; typedef std::vector< V3 > V4;
static double tA[NZ_][NZ_][7][VERNERDATA_A_NUMELEMENTS], tB[NZ_][NZ_][VERNERDATA_B_NUMELEMENTS]; static unsigned cNinn[NZ_], cNtot[NZ_];
static inline void fill_tables(void) {
  VernerCrossSections &v = g_v.v;
  new (&v._data_A) V4(NZ_, V3(NZ_, V2(7, V1(VERNERDATA_A_NUMELEMENTS, 0.))));
  new (&v._data_B) V3(NZ_, V2(NZ_, V1(VERNERDATA_B_NUMELEMENTS, 0.)));
  new (&v._data_C) V2(NZ_, V1(VERNERDATA_C_NUMELEMENTS, 0.));
  for (int z = 0; z < NZ_; ++z) for (int n = 0; n <= z; ++n) {
    for (int s = 0; s < 7; ++s) for (int k = 0; k < VERNERDATA_A_NUMELEMENTS; ++k) { double x = nondet_double(); __CPROVER_assume(x >= 0.); tA[z][n][s][k] = x; v._data_A[z][n][s][k] = x; }   // table pattern: non-negative entries
    for (int k = 0; k < VERNERDATA_B_NUMELEMENTS; ++k) { double x = nondet_double(); if (k != VERNERDATA_B_y_0) __CPROVER_assume(x >= 0.); tB[z][n][k] = x; v._data_B[z][n][k] = x; }
  }
  for (int n = 0; n < NZ_; ++n) { cNinn[n] = 1; cNtot[n] = 2; v._data_C[n][VERNERDATA_C_Ninn] = 1.; v._data_C[n][VERNERDATA_C_Ntot] = 2.; }
}
static inline void set_shells(int ne) { VernerCrossSections &v = g_v.v; const int n = ne - 1; cNinn[n] = (unsigned)__verif_fork_u(1, 2); cNtot[n] = (unsigned)__verif_fork_u(2, 3); v._data_C[n][VERNERDATA_C_Ninn] = cNinn[n]; v._data_C[n][VERNERDATA_C_Ntot] = cNtot[n]; }
// phfit2 transcribed (for nz <= 14 none of the heavy-element special cases applies)
static inline double ref_phfit2(int nz, int ne, int is, double e) {
  const int iZ = nz - 1, iN = ne - 1, in = is - 1;
  if (e < tA[iZ][iN][in][VERNERDATA_A_E_th]) return 0.;
  const unsigned nout = cNtot[iN], nint = cNinn[iN];
  if ((unsigned)is > nout) return 0.;
  double einn; if (ne < 3) einn = 1.e30; else einn = tA[iZ][iN][nint - 1][VERNERDATA_A_E_th];      // inner-shell edge OF THIS ION
  if ((unsigned)is < nout && (unsigned)is > nint && e < einn) return 0.;
  if ((unsigned)is <= nint || e >= einn) {
    const double *p = tA[iZ][iN][in];
    const double y = e * p[VERNERDATA_A_E_0_inv], ym1 = y - 1.;
    const double Fy = (ym1 * ym1 + p[VERNERDATA_A_y_w_squared]) * std::pow(y, p[VERNERDATA_A_Plconst]) * std::pow(1. + std::sqrt(y * p[VERNERDATA_A_one_over_y_a]), -p[VERNERDATA_A_P]);
    return p[VERNERDATA_A_sigma_0] * Fy;
  } else {
    const double *p = tB[iZ][iN];
    const double x = e * p[VERNERDATA_B_E_0_inv] - p[VERNERDATA_B_y_0], y = std::sqrt(x * x + p[VERNERDATA_B_y_1_squared]), xm1 = x - 1.;
    const double Fy = (xm1 * xm1 + p[VERNERDATA_B_y_w_squared]) * std::pow(y, 0.5 * p[VERNERDATA_B_P] - 5.5) * std::pow(1. + std::sqrt(y * p[VERNERDATA_B_one_over_y_a]), -p[VERNERDATA_B_P]);
    return p[VERNERDATA_B_sigma_0] * Fy;
  }
}
__attribute__((noinline)) void h_v1_verner(void) {
  fill_tables();
  const int nz = NZ_, ne = (int)__verif_fork_u(NELO, NEHI), is = (int)__verif_fork_u(1, 3);
  set_shells(ne);
  const double e = nondet_double(); __CPROVER_assume(e > 0.);
  const double s = g_v.v.get_cross_section_verner(nz, ne, is, e);
  __verif_check(s == ref_phfit2(nz, ne, is, e));                                 // the published formula on the same tables
  __verif_check(s >= 0.);                                                        // non-negative
  if (e < tA[nz - 1][ne - 1][is - 1][VERNERDATA_A_E_th]) __verif_check(s == 0.);  // exactly zero below the shell threshold
}
// V3: bisection search used by the spectrum samplers
__attribute__((noinline)) void h_v3_locate(void) {
  double t[LOCN]; unsigned n = nondet_uint(); __CPROVER_assume(n >= 2 && n <= LOCN);
  for (int i = 0; i < LOCN; ++i) { t[i] = nondet_double(); __CPROVER_assume(t[i] == t[i]); if (i > 0) __CPROVER_assume(t[i - 1] < t[i]); }
  const double x = nondet_double(); __CPROVER_assume(x == x);
  const uint_fast32_t i = Utilities::locate(x, t, n);
  __verif_check(i <= n - 2);                                                     // always a valid interval index
  if (t[0] < x && x <= t[n - 1]) { __verif_check(t[i] < x); __verif_check(x <= t[i + 1]); }   // the bracketing interval
  if (x <= t[0]) __verif_check(i == 0);
  if (x > t[n - 1]) __verif_check(i == n - 2);
}
}
