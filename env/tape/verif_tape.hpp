// Typed tape model of RestartWriter / RestartReader (include guards of the real headers are claimed so the real
// iostream-based classes are skipped).  Every write<T> appends (type tag, value); every read<T> checks the tag, so
// order/type asymmetries between write_restart_file and the restart constructor are violations by themselves.
#ifndef RESTARTWRITER_HPP
#define RESTARTWRITER_HPP
#define RESTARTREADER_HPP
#include <cstdint>
#include <string>
#include <map>
#include <type_traits>
#ifndef VERIF_TAPE_FREE_BOOL
#define VERIF_TAPE_FREE_BOOL 0
#endif
#ifndef VERIF_TAPE_N
#define VERIF_TAPE_N 64
#endif
extern "C" {
extern int verif_tape_tag[VERIF_TAPE_N];
extern uint64_t verif_tape_u[VERIF_TAPE_N];
extern double verif_tape_d[VERIF_TAPE_N];
extern int verif_tape_wpos, verif_tape_rpos;
}
template <typename T> struct verif_tag { static const int v = 100 + (int)sizeof(T); static const bool fp = false; };
template <> struct verif_tag<double> { static const int v = 1; static const bool fp = true; };
template <> struct verif_tag<bool> { static const int v = 2; static const bool fp = false; };
class RestartWriter {
public:
  inline RestartWriter(const std::string) {}
  inline RestartWriter() {}
  template <typename T> void write(const T &value) {
    __verif_check(verif_tape_wpos < VERIF_TAPE_N);
    verif_tape_tag[verif_tape_wpos] = verif_tag<T>::v;
    put(value, verif_tape_wpos);
    ++verif_tape_wpos;
  }
private:
  inline void put(const double &v, int p) { verif_tape_d[p] = v; }
  template <typename T> inline typename std::enable_if<!std::is_class<T>::value>::type put(const T &v, int p) { verif_tape_u[p] = (uint64_t)v; }
  // class-typed items (OperatingSystem::TimeValue of Timer) are outside the tape model: writing one is a failed obligation
  template <typename T> inline typename std::enable_if<std::is_class<T>::value>::type put(const T &, int) { __verif_check(0); }
};
// strings and maps (parameter files) are outside the tape model: writing one is a failed obligation
template <> inline void RestartWriter::write(const std::string &) { __verif_check(0); }
template <> inline void RestartWriter::write(const std::map< std::string, std::string > &) { __verif_check(0); }
class RestartReader {
public:
  inline RestartReader(const std::string) {}
  inline RestartReader() {}
  template <typename T> T read() {
    __verif_check(verif_tape_rpos < verif_tape_wpos);
#ifdef VERIF_TAPE_FREE
    // free-tape mode (idempotence harnesses): an entry that nobody wrote (tag 0) takes the type of its first reader
    if (verif_tape_tag[verif_tape_rpos] == 0) { verif_tape_tag[verif_tape_rpos] = verif_tag<T>::v; if (verif_tag<T>::v == 2) verif_tape_u[verif_tape_rpos] = VERIF_TAPE_FREE_BOOL; }   // free bool entries take the value chosen by the harness
#endif
    __verif_check(verif_tape_tag[verif_tape_rpos] == verif_tag<T>::v);       // same type, same order as written
    T r = get((T *)0, verif_tape_rpos);
    ++verif_tape_rpos;
    return r;
  }
private:
  inline double get(double *, int p) { return verif_tape_d[p]; }
  template <typename T> inline typename std::enable_if<!std::is_class<T>::value, T>::type get(T *, int p) { return (T)verif_tape_u[p]; }
  template <typename T> inline typename std::enable_if<std::is_class<T>::value, T>::type get(T *, int) { __verif_check(0); return T(); }
};
template <> inline std::string RestartReader::read() { __verif_check(0); return std::string(); }
template <> inline std::map< std::string, std::string > RestartReader::read() { __verif_check(0); return std::map< std::string, std::string >(); }
#endif
