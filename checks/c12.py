import os, sys
from vlib import *

def harnesses(tier):
    n = 56
    return [AHarness('M1_LiveOutputManager', 'c12_lom.cpp', 'h_m1_lom', unwind=n + 2, timeout=600,
        what='LiveOutputManager constructor + destructor on storage with ARBITRARY previous content, all 5 option flags symbolic: every owned pointer is null or a live object allocated by the constructor, exactly the enabled calculators exist, the destructor frees only heap objects it owns (no invalid free, no double free)',
        bound='all 2^5 option combinations x arbitrary previous storage bytes; calculator classes modelled as trivial heap objects'),
            AHarness('M2_clear_after', 'c12_tsv.cpp', 'h_m2_clear_after', unwind=6, timeout=600, native_replay=False,
        what='ThreadSafeVector::clear_after(offset) from ANY state (ring counter arbitrary, i.e. also after it has wrapped): slots >= offset are released and reset, slots below are untouched, counters == offset, and no access leaves the two arrays (pointer checks on exactly-sized arrays)', bound='4 slots, offset in [0,4], flags / contents / counters symbolic'),
            AHarness('M2_get_free_elements', 'c12_tsv.cpp', 'h_m2_block', unwind=6, timeout=600, native_replay=False,
        what='ThreadSafeVector::get_free_elements(n): exactly the first n slots are taken, counters == n, no out-of-bounds access', bound='4 slots, n in [0,3]')]

def run(tier, only=None):
    ev = Evidence('C12', tier); work = Work('C12')
    ev.stubs += ['SurfaceDensityCalculator, SurfaceDensityIonizedCalculator, DensityPDFCalculator, VelocityPDFCalculator: trivial tagged heap objects (env/c12/calc_stubs.hpp)']
    ev.assumptions += ['allocation failure outside the claim', 'unit-level necessary conditions only: complete runs are not encodable']
    ev.outside += ['exit status and memory safety of complete runs in every mode (whole program, file I/O, OpenMP runtime)', 'the simulation drivers']
    try:
        hs = [h for h in harnesses(tier) if not only or h.name.startswith(only)]
        violations, broken = run_engine_a('C12', tier, hs, ev, work)
    except Broken as b:
        violations, broken = [], [str(b)]
    work.clean()
    finish(ev, violations, '; '.join(broken) if broken else None)

def replay(path): return generic_replay(path, harnesses('thorough'))
