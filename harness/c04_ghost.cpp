// C04-F3: REAL Hydro::do_ghost_flux_calculation with the REAL ReflectiveHydroBoundary: the two face states handed to the
// Riemann solver are exact mirror images of each other about the wall (so nothing can flow through it).
// The solver member of Hydro is wrapped by a recording class with the same interface (the only substitution): the wrapper
// checks the mirror relation on the arguments it receives and then calls the real HLLC solver.
#include "HLLCRiemannSolver.hpp"
#include <cmath>
extern "C" { extern int rec_dir, rec_calls; }
class RecSolver {
public:
  HLLCRiemannSolver real;
  RecSolver(const double gamma) : real(gamma) {}
  __attribute__((noinline)) void solve_for_flux(const double rhoL, const CoordinateVector<> uL, const double PL, const double rhoR, const CoordinateVector<> uR, const double PR,
                                                double &mflux, CoordinateVector<> &pflux, double &Eflux, const CoordinateVector<> normal, const CoordinateVector<> vface = 0.) const {
    ++rec_calls;
    __verif_check(rhoL == rhoR);                                        // same density on both sides of the wall
    __verif_check(PL == PR);                                            // same pressure
    for (int k = 0; k < 3; ++k) {
      if (k == rec_dir) { __verif_check(uR[k] == -uL[k]); __verif_check((normal[k] == 1.) | (normal[k] == -1.)); }   // normal velocity reversed
      else { __verif_check(uR[k] == uL[k]); __verif_check(normal[k] == 0.); }                                        // tangential velocity kept
    }
    real.solve_for_flux(rhoL, uL, PL, rhoR, uR, PR, mflux, pflux, Eflux, normal, vface);
  }
};
#define HLLCRiemannSolver RecSolver
#include "Hydro.hpp"
#undef HLLCRiemannSolver
#include "HydroBoundary.hpp"
union UH { Hydro h; UH() {} ~UH() {} };
UH g_uh;
extern "C" {
int rec_dir, rec_calls;
__attribute__((noinline)) void h_f3_reflective(void) {
  Hydro &hy = g_uh.h;
  const_cast<double &>(hy._gamma) = nondet_double(); __CPROVER_assume((hy._gamma > 1.) & (hy._gamma <= 2.));
  new (const_cast<RecSolver *>(&hy._riemann_solver)) RecSolver(hy._gamma);
  HydroVariables L;
  for (int k = 0; k < 5; ++k) { L._primitives[k] = nondet_double(); L._conserved[k] = nondet_double(); L._delta_conserved[k] = 0.; L._primitive_gradients[k] = CoordinateVector<>(nondet_double(), nondet_double(), nondet_double()); }
  __CPROVER_assume((L._primitives[0] >= 0.) & (L._primitives[4] >= 0.) & (L._conserved[0] >= 0.) & (L._conserved[4] >= 0.));
  const double dx = nondet_double(), A = nondet_double(), dt = nondet_double(); __CPROVER_assume((dx != 0.) & (A > 0.) & (dt > 0.));   // dx < 0: lower wall, dx > 0: upper wall
  const CoordinateVector<> posR(nondet_double(), nondet_double(), nondet_double());
  ReflectiveHydroBoundary wall;
  rec_dir = DIR; rec_calls = 0;
  hy.do_ghost_flux_calculation(DIR, posR, L, wall, dx, A, dt);
  __verif_check(rec_calls == 1);
}
// lemma used by F3: the slope limiter is odd, limit(-x, -a, -b, f) == -limit(x, a, b, f) (REAL Hydro::limit executed twice)
__attribute__((noinline)) void h_f3_limit_odd(void) {
  const double x = nondet_double(), a = nondet_double(), b = nondet_double();
  const double r1 = Hydro::limit(x, a, b, 0.5), r2 = Hydro::limit(-x, -a, -b, 0.5);
  __verif_check(r2 == -r1);
}
// second lemma: between equal neighbours the limiter returns the cell value, limit(x, a, a, f) == a
__attribute__((noinline)) void h_f3_limit_flat(void) {
  const double x = nondet_double(), a = nondet_double();
  __verif_check(Hydro::limit(x, a, a, 0.5) == a);
}
}
