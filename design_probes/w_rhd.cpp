#include "TaskBasedRadiationHydrodynamicsSimulation.cpp"
extern "C" {
__attribute__((noinline)) void v_make(ThreadSafeVector<Task>*t, uint_fast32_t i, DensitySubGridCreator<HydroDensitySubGrid>*g){ make_hydro_tasks(*t,i,*g);} 
__attribute__((noinline)) void v_dep(ThreadSafeVector<Task>*t, uint_fast32_t i, DensitySubGridCreator<HydroDensitySubGrid>*g){ set_dependencies(i,*g,*t);} 
__attribute__((noinline)) void v_reset(ThreadSafeVector<Task>*t, HydroDensitySubGrid*g){ reset_hydro_tasks(*t,*g);} 
__attribute__((noinline)) HydroDensitySubGrid* v_create(DensitySubGridCreator<HydroDensitySubGrid>*g, uint_fast32_t i){ return g->create_subgrid(i);} 
__attribute__((noinline)) void v_copies(DensitySubGridCreator<HydroDensitySubGrid>*g, std::vector<uint_fast8_t>*l){ g->create_copies(*l);} 
}
