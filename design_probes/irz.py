#!/usr/bin/env python3
"""Prototype: LLVM-IR symbolic executor with IEEE-UF abstraction (z3)."""
import re, sys, z3, itertools, time

# ---------------------------------------------------------------- types
class T:
    pass
class IntT(T):
    def __init__(s, b): s.bits = b
    def __repr__(s): return 'i%d' % s.bits
class DblT(T):
    def __repr__(s): return 'double'
class PtrT(T):
    def __init__(s, to): s.to = to
    def __repr__(s): return '%r*' % (s.to,)
class ArrT(T):
    def __init__(s, n, el): s.n = n; s.el = el
    def __repr__(s): return '[%d x %r]' % (s.n, s.el)
class StructT(T):
    def __init__(s, els, packed=False): s.els = els; s.packed = packed
    def __repr__(s): return '{%s}' % ','.join(map(repr, s.els))
class NamedT(T):
    def __init__(s, name): s.name = name
    def __repr__(s): return s.name
class VoidT(T):
    def __repr__(s): return 'void'
class FnT(T):
    def __repr__(s): return 'fn'

class Module:
    def __init__(s): s.types = {}; s.funcs = {}; s.globals = {}; s.decls = set()

    def resolve(s, t):
        while isinstance(t, NamedT):
            t = s.types[t.name]
        return t
    def align(s, t):
        t = s.resolve(t)
        if isinstance(t, IntT): return max(1, min(8, (t.bits + 7) // 8))
        if isinstance(t, (DblT, PtrT)): return 8
        if isinstance(t, ArrT): return s.align(t.el)
        if isinstance(t, StructT):
            return 1 if t.packed or not t.els else max(s.align(e) for e in t.els)
        raise Exception('align %r' % t)
    def size(s, t):
        t = s.resolve(t)
        if isinstance(t, IntT): return max(1, (t.bits + 7) // 8)
        if isinstance(t, (DblT, PtrT)): return 8
        if isinstance(t, ArrT): return t.n * s.size(t.el)
        if isinstance(t, StructT):
            off = 0
            for e in t.els:
                a = 1 if t.packed else s.align(e)
                off = (off + a - 1) // a * a + s.size(e)
            a = s.align(t)
            return (off + a - 1) // a * a
        raise Exception('size %r' % t)
    def field_off(s, t, i):
        t = s.resolve(t)
        off = 0
        for k, e in enumerate(t.els):
            a = 1 if t.packed else s.align(e)
            off = (off + a - 1) // a * a
            if k == i: return off
            off += s.size(e)
        raise Exception('field')

# ---------------------------------------------------------------- tokenizer / type parser
TOK = re.compile(r'\s*(\.\.\.|[%@][-a-zA-Z$._0-9]+|[%@]"[^"]*"|c"(?:[^"\\]|\\.)*"|-?\d+\.\d*(?:e[+-]?\d+)?|0x[0-9A-Fa-f]+|-?\d+|[a-zA-Z_][a-zA-Z0-9_.]*|<\{|\}>|[\[\]{}()<>,=*!#])')
def tokenize(line):
    out = []; i = 0
    line = line.split(', !')[0] if False else line
    while i < len(line):
        m = TOK.match(line, i)
        if not m:
            if line[i:].strip() == '': break
            raise Exception('tok: %r at %r' % (line, line[i:i+20]))
        out.append(m.group(1)); i = m.end()
    return out

class P:
    def __init__(s, toks): s.t = toks; s.i = 0
    def peek(s, k=0): return s.t[s.i + k] if s.i + k < len(s.t) else None
    def next(s): v = s.t[s.i]; s.i += 1; return v
    def eat(s, x):
        if s.peek() == x: s.i += 1; return True
        return False
    def expect(s, x):
        v = s.next()
        assert v == x, (v, x, s.t[max(0, s.i-5):s.i+5])
    def type(s):
        t = s.next()
        if t == 'void': ty = VoidT()
        elif t == 'double': ty = DblT()
        elif t == 'float': ty = DblT()
        elif re.fullmatch(r'i\d+', t): ty = IntT(int(t[1:]))
        elif t[0] == '%': ty = NamedT(t)
        elif t == '[':
            n = int(s.next()); s.expect('x'); el = s.type(); s.expect(']'); ty = ArrT(n, el)
        elif t == '{' or t == '<{':
            els = []
            close = '}' if t == '{' else '}>'
            while s.peek() != close:
                els.append(s.type()); s.eat(',')
            s.next(); ty = StructT(els, t == '<{')
        elif t == 'opaque': ty = StructT([])
        else: raise Exception('type? %r in %r' % (t, s.t))
        while True:
            if s.eat('*'): ty = PtrT(ty)
            elif s.peek() == '(':
                # function type
                d = 0
                while True:
                    x = s.next()
                    if x == '(': d += 1
                    elif x == ')':
                        d -= 1
                        if d == 0: break
                ty = FnT()
            else: break
        return ty

ATTRS = {'noundef','nonnull','nocapture','readonly','writeonly','readnone','noalias','signext','zeroext','inreg','returned','immarg','nofree','nest'}
def skip_attrs(p):
    byval = None
    while True:
        t = p.peek()
        if t in ATTRS: p.next()
        elif t in ('align','dereferenceable','dereferenceable_or_null'):
            p.next()
            if p.peek() == '(':
                p.next(); p.next(); p.expect(')')
            else: p.next()
        elif t in ('byval','sret'):
            p.next(); p.expect('('); ty = p.type(); p.expect(')')
            if t == 'byval': byval = ty
        else: break
    return byval

# operand: returns tuple
def operand(p, ty):
    t = p.next()
    if t[0] == '%': return ('reg', t)
    if t[0] == '@': return ('glob', t)
    if t in ('true','false'): return ('int', 1 if t == 'true' else 0)
    if t in ('null','zeroinitializer'): return ('zero',)
    if t == 'undef' or t == 'poison': return ('undef',)
    if t.startswith('0x'):
        import struct
        return ('dbl', struct.unpack('>d', bytes.fromhex(t[2:].rjust(16,'0')))[0])
    if re.fullmatch(r'-?\d+', t):
        if isinstance(ty, DblT): return ('dbl', float(t))
        return ('int', int(t))
    if re.fullmatch(r'-?\d+\.\d*(e[+-]?\d+)?', t): return ('dbl', float(t))
    if t == 'getelementptr':
        p.eat('inbounds'); p.expect('(')
        bt = p.type(); p.expect(',')
        pt = p.type(); base = operand(p, pt)
        idx = []
        while p.eat(','):
            p.eat('inrange')
            it = p.type(); idx.append(operand(p, it))
        p.expect(')')
        return ('cgep', bt, base, idx)
    if t == 'bitcast':
        p.expect('('); ft = p.type(); v = operand(p, ft); p.expect('to'); tt = p.type(); p.expect(')')
        return v
    if t == '[':
        els = []
        while p.peek() != ']':
            et = p.type(); els.append(operand(p, et)); p.eat(',')
        p.next(); return ('carr', els)
    if t[0] == 'c' and t[1] == '"': return ('cstr', t)
    raise Exception('operand? %r in %r' % (t, p.t))

class Ins:
    def __init__(s, **k): s.__dict__.update(k)
    def __repr__(s): return 'Ins(%s)' % s.__dict__

BINOPS = {'add','sub','mul','udiv','sdiv','urem','srem','shl','lshr','ashr','and','or','xor','fadd','fsub','fmul','fdiv','frem'}
CASTS = {'bitcast','zext','sext','trunc','sitofp','uitofp','fptosi','fptoui','ptrtoint','inttoptr','fpext','fptrunc'}
FLAGS = {'nuw','nsw','exact','nnan','ninf','nsz','arcp','contract','afn','reassoc','fast','inbounds','volatile','tail','notail','musttail','atomic'}

def parse_call_args(p):
    args = []
    p.expect('(')
    while p.peek() != ')':
        if p.peek() == 'metadata':
            # skip metadata arg
            while p.peek() not in (',', ')'): p.next()
            p.eat(','); args.append((VoidT(), ('undef',), None)); continue
        ty = p.type(); bv = skip_attrs(p); v = operand(p, ty); args.append((ty, v, bv)); p.eat(',')
    p.next()
    return args

def parse_ins(line):
    line = re.sub(r', ![a-zA-Z.]+ ![0-9]+', '', line)
    line = re.sub(r' #\d+$', '', line.rstrip())
    p = P(tokenize(line))
    dest = None
    if p.peek(1) == '=':
        dest = p.next(); p.next()
    while p.peek() in FLAGS: p.next()
    op = p.next()
    if op in BINOPS:
        while p.peek() in FLAGS: p.next()
        ty = p.type(); a = operand(p, ty); p.expect(','); b = operand(p, ty)
        return Ins(op=op, dest=dest, ty=ty, a=a, b=b)
    if op == 'fneg':
        while p.peek() in FLAGS: p.next()
        ty = p.type(); a = operand(p, ty); return Ins(op=op, dest=dest, ty=ty, a=a)
    if op in ('icmp','fcmp'):
        while p.peek() in FLAGS: p.next()
        pred = p.next(); ty = p.type(); a = operand(p, ty); p.expect(','); b = operand(p, ty)
        return Ins(op=op, dest=dest, pred=pred, ty=ty, a=a, b=b)
    if op in CASTS:
        ft = p.type(); a = operand(p, ft); p.expect('to'); tt = p.type()
        return Ins(op=op, dest=dest, ft=ft, tt=tt, a=a)
    if op == 'alloca':
        ty = p.type(); n = None
        if p.eat(','):
            if p.peek() != 'align':
                nt = p.type(); n = operand(p, nt)
        return Ins(op=op, dest=dest, ty=ty, n=n)
    if op == 'load':
        while p.peek() in FLAGS: p.next()
        ty = p.type(); p.expect(','); pt = p.type(); a = operand(p, pt)
        return Ins(op=op, dest=dest, ty=ty, a=a)
    if op == 'store':
        while p.peek() in FLAGS: p.next()
        ty = p.type(); v = operand(p, ty); p.expect(','); pt = p.type(); a = operand(p, pt)
        return Ins(op=op, ty=ty, v=v, a=a, dest=None)
    if op == 'getelementptr':
        p.eat('inbounds'); bt = p.type(); p.expect(','); pt = p.type(); base = operand(p, pt); idx = []
        while p.eat(','):
            it = p.type(); idx.append((it, operand(p, it)))
        return Ins(op=op, dest=dest, bt=bt, base=base, idx=idx)
    if op == 'phi':
        ty = p.type(); inc = []
        while True:
            p.expect('['); v = operand(p, ty); p.expect(','); l = p.next(); p.expect(']'); inc.append((v, l))
            if not p.eat(','): break
        return Ins(op=op, dest=dest, ty=ty, inc=inc)
    if op == 'select':
        while p.peek() in FLAGS: p.next()
        ct = p.type(); c = operand(p, ct); p.expect(','); ty = p.type(); a = operand(p, ty); p.expect(','); ty2 = p.type(); b = operand(p, ty2)
        return Ins(op=op, dest=dest, c=c, ty=ty, a=a, b=b)
    if op == 'br':
        if p.peek() == 'label':
            p.next(); return Ins(op='jmp', dest=None, to=p.next())
        ct = p.type(); c = operand(p, ct); p.expect(','); p.expect('label'); t1 = p.next(); p.expect(','); p.expect('label'); t2 = p.next()
        return Ins(op='br', dest=None, c=c, t=t1, f=t2)
    if op == 'switch':
        ty = p.type(); v = operand(p, ty); p.expect(','); p.expect('label'); d = p.next(); p.expect('[')
        cases = []
        while p.peek() != ']':
            ct = p.type(); cv = operand(p, ct); p.expect(','); p.expect('label'); cases.append((cv[1], p.next()))
        return Ins(op='switch', dest=None, ty=ty, v=v, default=d, cases=cases)
    if op == 'ret':
        ty = p.type()
        if isinstance(ty, VoidT): return Ins(op='ret', dest=None, v=None)
        return Ins(op='ret', dest=None, ty=ty, v=operand(p, ty))
    if op == 'unreachable': return Ins(op=op, dest=None)
    if op in ('call','invoke'):
        while p.peek() in FLAGS or p.peek() in ATTRS or p.peek() in ('fastcc','ccc'): p.next()
        skip_attrs(p)
        rty = p.type(); skip_attrs(p)
        callee = operand(p, None)
        args = parse_call_args(p)
        normal = None
        if op == 'invoke':
            while p.peek() != 'to': p.next()
            p.next(); p.expect('label'); normal = p.next()
        return Ins(op='call', dest=dest, rty=rty, callee=callee, args=args, normal=normal)
    if op == 'landingpad':
        ty = p.type(); return Ins(op='landingpad', dest=dest, ty=ty)
    if op == 'resume':
        return Ins(op='unreachable', dest=None)
    if op == 'extractvalue':
        ty = p.type(); a = operand(p, ty); idx = []
        while p.eat(','): idx.append(int(p.next()))
        return Ins(op=op, dest=dest, ty=ty, a=a, idx=idx)
    if op == 'insertvalue':
        ty = p.type(); a = operand(p, ty); p.expect(','); vt = p.type(); v = operand(p, vt); idx = []
        while p.eat(','): idx.append(int(p.next()))
        return Ins(op=op, dest=dest, ty=ty, a=a, v=v, vt=vt, idx=idx)
    if op == 'freeze':
        ty = p.type(); a = operand(p, ty); return Ins(op='freeze', dest=dest, ty=ty, a=a)
    raise Exception('ins? %s' % line)

def parse_module(path, want=None):
    m = Module()
    lines = open(path).read().split('\n')
    i = 0
    while i < len(lines):
        L = lines[i]
        mt = re.match(r'^(%(?:"[^"]*"|[-a-zA-Z$._0-9]+)) = type (.*)$', L)
        if mt:
            m.types[mt.group(1)] = P(tokenize(mt.group(2))).type(); i += 1; continue
        mg = re.match(r'^(@[-a-zA-Z$._0-9"]+) = (.*)$', L)
        if mg:
            m.globals[mg.group(1)] = mg.group(2); i += 1; continue
        md = re.match(r'^define .*?(@[-a-zA-Z$._0-9"]+)\((.*)\)[^()]*\{$', L)
        if md:
            name = md.group(1)
            body = []
            i += 1
            while lines[i] != '}':
                body.append(lines[i]); i += 1
            m.funcs[name] = (L, body)
        i += 1
    return m

class Func:
    def __init__(s, m, name):
        L, body = m.funcs[name]
        s.name = name
        # params
        hdr = L[L.index(name) + len(name):]
        p = P(tokenize(hdr[:hdr.rindex(')') + 1]))
        p.expect('(')
        s.params = []
        k = 0
        while p.peek() != ')':
            if p.peek() == '...': p.next(); continue
            ty = p.type(); bv = skip_attrs(p)
            nm = p.next() if p.peek() not in (',', ')') else '%%%d' % k
            s.params.append((ty, nm, bv)); p.eat(',')
        s.blocks = {}; s.order = []
        cur = '%' + str(len(s.params)) if not any(n for _, n, _ in s.params if not n[1:].isdigit()) else '%entry'
        # entry label: numbering = number of params
        cur = '%%%d' % len(s.params)
        s.blocks[cur] = []; s.order.append(cur)
        joined = []; inswitch = False
        for L2 in body:
            if inswitch:
                joined[-1] += ' ' + L2.strip()
                if L2.strip() == ']': inswitch = False
                continue
            if re.match(r'^\s*switch ', L2) and L2.rstrip().endswith('['):
                joined.append(L2); inswitch = True; continue
            if L2.strip().startswith('to label') and joined: joined[-1] += ' ' + L2.strip()
            elif L2.strip().startswith('cleanup') or L2.strip().startswith('catch ') or L2.strip().startswith('filter '): continue
            else: joined.append(L2)
        for L2 in joined:
            if not L2.strip() or L2.lstrip().startswith(';'): continue
            ml = re.match(r'^([-a-zA-Z$._0-9]+):', L2)
            if ml:
                cur = '%' + ml.group(1); s.blocks[cur] = []; s.order.append(cur); continue
            s.blocks[cur].append(parse_ins(L2.strip()))
        s.entry = s.order[0]

# ---------------------------------------------------------------- symbolic domain
R = z3.RealSort()
UF = {}
def uf(name, n):
    if name not in UF: UF[name] = z3.Function(name, *([R] * (n + 1)))
    return UF[name]
class Ctx:
    """holds axioms generated for UF applications"""
    def __init__(s): s.ax = []; s.seen = set(); s.apps = {}; s.tiny_sites = []
    def reg(s, t):
        if t.get_id() in s.seen: return False
        s.seen.add(t.get_id()); return True
    def neg(s, a): return z3.simplify(-a)
    def fmul(s, a, b):
        if z3.is_rational_value(a) and z3.is_rational_value(b): pass
        a = z3.simplify(a); b = z3.simplify(b); f = uf('fmul', 2); t = f(a, b)
        if s.reg(t):
            na, nb = s.neg(a), s.neg(b)
            for (x, y, sg) in [(a, b, 1), (na, b, -1), (a, nb, -1), (na, nb, 1)]:
                s.ax.append(f(x, y) == sg * t); s.ax.append(f(y, x) == sg * t)
            s.ax.append(z3.Implies(z3.Or(a == 0, b == 0), t == 0))
            s.ax.append(z3.Implies(a == 1, t == b)); s.ax.append(z3.Implies(b == 1, t == a))
            s.ax.append(z3.Implies(z3.And(a >= 0, b >= 0), t >= 0))
            s.ax.append(z3.Implies(z3.And(a <= 0, b <= 0), t >= 0))
            s.ax.append(z3.Implies(z3.And(a >= 0, b <= 0), t <= 0))
        return t
    def fadd(s, a, b):
        a = z3.simplify(a); b = z3.simplify(b); f = uf('fadd', 2); t = f(a, b)
        if s.reg(t):
            na, nb = s.neg(a), s.neg(b)
            s.ax.append(f(b, a) == t); s.ax.append(f(na, nb) == -t); s.ax.append(f(nb, na) == -t)
            s.ax.append(z3.Implies(a == 0, t == b)); s.ax.append(z3.Implies(b == 0, t == a))
            s.ax.append(z3.Implies(a == -b, t == 0))
            s.ax.append(z3.Implies(z3.And(a >= 0, b >= 0), z3.And(t >= a, t >= b)))
            s.ax.append(z3.Implies(z3.And(a <= 0, b <= 0), z3.And(t <= a, t <= b)))
            s.ax.append(z3.Implies(a >= -b, t >= 0)); s.ax.append(z3.Implies(a <= -b, t <= 0))
            TINY = z3.RealVal(2) ** -1000 if False else z3.Q(1, 2**1000); BIG = z3.Q(1, 2**940)
            for (x, y) in ((a, b), (b, a)):
                if z3.is_rational_value(y):
                    # A9: |y| <= 2^-1000 and |x| >= 2^-940  => fadd(x,y) == x   (y below half an ulp of x)
                    yy = y.as_fraction()
                    if abs(yy) <= 2.0 ** -1000 and yy != 0:
                        s.ax.append(z3.Implies(z3.Or(x >= BIG, x <= -BIG), t == x))
                        s.tiny_sites.append(x)
        return t
    def fdiv(s, a, b):
        a = z3.simplify(a); b = z3.simplify(b); f = uf('fdiv', 2); t = f(a, b)
        if s.reg(t):
            na, nb = s.neg(a), s.neg(b)
            s.ax.append(f(na, b) == -t); s.ax.append(f(a, nb) == -t); s.ax.append(f(na, nb) == t)
            s.ax.append(z3.Implies(z3.And(a == 0, b != 0), t == 0)); s.ax.append(z3.Implies(b == 1, t == a))
            s.ax.append(z3.Implies(z3.And(a >= 0, b > 0), t >= 0)); s.ax.append(z3.Implies(z3.And(a <= 0, b > 0), t <= 0))
        return t
    def fun1(s, name, a, nonneg=True):
        a = z3.simplify(a); f = uf(name, 1); t = f(a)
        if s.reg(t):
            if nonneg: s.ax.append(t >= 0)
            if name == 'sqrt':
                s.ax.append(z3.Implies(a == 0, t == 0)); s.ax.append(z3.Implies(a == 1, t == 1)); s.ax.append(z3.Implies(a > 0, t > 0))
        return t
    def fun2(s, name, a, b):
        a = z3.simplify(a); b = z3.simplify(b); f = uf(name, 2); t = f(a, b)
        if s.reg(t):
            if name == 'pow': s.ax.append(z3.Implies(a >= 0, t >= 0))
        return t

class Abort(Exception): pass
class PathEnd(Exception): pass

class Exec:
    def __init__(s, m, ctx, solver):
        s.m = m; s.ctx = ctx; s.solver = solver
        s.fcache = {}
        s.mem = {}; s.nobj = 0
        s.decisions = []; s.dpos = 0; s.pending = []
        s.pc = []
        s.naxioms = 0
        s.asserts = []   # (cond) obligations from __verif_assert
        s.ties = []
        s.errors = 0
    def func(s, name):
        if name not in s.fcache: s.fcache[name] = Func(s.m, name)
        return s.fcache[name]
    def alloc(s, size):
        s.nobj += 1; s.mem[s.nobj] = {}; return (s.nobj, 0)
    # ------------- memory
    def store(s, ptr, ty, v):
        ty = s.m.resolve(ty)
        if isinstance(ty, (StructT, ArrT)): raise Exception('aggregate store')
        s.mem[ptr[0]][ptr[1]] = (v, s.m.size(ty))
    def load(s, ptr, ty):
        ty = s.m.resolve(ty)
        c = s.mem[ptr[0]].get(ptr[1])
        if c is None: raise Exception('uninit load at %r' % (ptr,))
        return c[0]
    def memcpy(s, d, sr, n):
        src = s.mem[sr[0]]
        for off in list(src.keys()):
            if sr[1] <= off < sr[1] + n:
                s.mem[d[0]][d[1] + off - sr[1]] = src[off]
    def memset0(s, d, n, ty=None):
        # fill with double zeros at 8-byte granularity and also ints: store a polymorphic zero
        for off in range(0, n, 8): s.mem[d[0]][d[1] + off] = (ZERO, 8)
    # ------------- branching
    def feasible(s, c):
        s.flush_axioms()
        s.solver.push(); s.solver.add(c); r = s.solver.check(); s.solver.pop()
        return r != z3.unsat
    def flush_axioms(s):
        while s.naxioms < len(s.ctx.ax):
            s.solver.add(s.ctx.ax[s.naxioms]); s.naxioms += 1
    def branch(s, c):
        """c: z3 Bool or python bool -> python bool decision"""
        if isinstance(c, bool): return c
        c = z3.simplify(c)
        if z3.is_true(c): return True
        if z3.is_false(c): return False
        if s.dpos < len(s.decisions):
            d = s.decisions[s.dpos]; s.dpos += 1
        else:
            ft = s.feasible(c); ff = s.feasible(z3.Not(c))
            if ft and ff:
                d = True; s.pending.append(s.decisions[:s.dpos] + [False])
            elif ft: d = True
            elif ff: d = False
            else: raise PathEnd()
            s.decisions.append(d); s.dpos += 1
        s.solver.add(c if d else z3.Not(c)); s.pc.append(c if d else z3.Not(c))
        return d

ZERO = ('poly0',)

def as_real(v):
    if v is ZERO: return z3.RealVal(0)
    if isinstance(v, float): return z3.RealVal(repr(v)) if v == v and abs(v) != float('inf') else None
    if isinstance(v, int): return z3.RealVal(v)
    return v
INF = z3.Real('__INF')
def dconst(x):
    from fractions import Fraction
    if x == float('inf'): return INF
    if x == float('-inf'): return -INF
    f = Fraction(x); return z3.RealVal(str(f.numerator)) / z3.RealVal(str(f.denominator)) if f.denominator != 1 else z3.RealVal(str(f.numerator))

def run_function(E, fname, args):
    m = E.m; F = E.func(fname)
    regs = {}
    for (ty, nm, bv), a in zip(F.params, args):
        if bv is not None:
            # byval: copy
            p = E.alloc(m.size(bv)); E.memcpy(p, a, m.size(bv)); a = p
        regs[nm] = a
    def val(o, ty=None):
        k = o[0]
        if k == 'reg': return regs[o[1]]
        if k == 'int': return o[1]
        if k == 'dbl': return dconst(o[1])
        if k == 'zero':
            t = m.resolve(ty) if ty is not None else None
            if isinstance(t, DblT): return z3.RealVal(0)
            if isinstance(t, PtrT): return (0, 0)
            return 0
        if k == 'undef': return 0
        if k == 'glob': return ('glob', o[1])
        if k == 'cgep':
            base = val(o[2]); return gep(o[1], base, [(None, x) for x in o[3]])
        raise Exception('val %r' % (o,))
    def gep(bt, base, idx):
        off = 0; t = bt
        for k, (it, io) in enumerate(idx):
            iv = val(io)
            if not isinstance(iv, int): raise Exception('symbolic gep index')
            if k == 0: off += iv * m.size(t)
            else:
                t = m.resolve(t)
                if isinstance(t, StructT): off += m.field_off(t, iv); t = t.els[iv]
                elif isinstance(t, ArrT): off += iv * m.size(t.el); t = t.el
                else: raise Exception('gep into %r' % t)
        if base[0] == 'glob': return ('glob', base[1], off)
        return (base[0], base[1] + off)
    def isint(v): return isinstance(v, int)
    cur = F.entry; prev = None
    while True:
        blk = F.blocks[cur]
        # phis evaluated simultaneously
        phis = [i for i in blk if i.op == 'phi']
        newv = {}
        for i in phis:
            for (v, l) in i.inc:
                if l == prev: newv[i.dest] = val(v, i.ty); break
            else: raise Exception('phi no pred %s %s' % (prev, i))
        regs.update(newv)
        for i in blk:
            op = i.op
            if op == 'phi': continue
            if op == 'alloca': regs[i.dest] = E.alloc(m.size(i.ty))
            elif op == 'load':
                p = val(i.a)
                if p[0] == 'glob': regs[i.dest] = load_global(E, p, i.ty)
                else:
                    v = E.load(p, i.ty)
                    if v is ZERO: v = z3.RealVal(0) if isinstance(m.resolve(i.ty), DblT) else ((0,0) if isinstance(m.resolve(i.ty), PtrT) else 0)
                    regs[i.dest] = v
            elif op == 'store': E.store(val(i.a), i.ty, val(i.v, i.ty))
            elif op == 'getelementptr': regs[i.dest] = gep(i.bt, val(i.base), i.idx)
            elif op in ('bitcast','ptrtoint','inttoptr','fpext','fptrunc','freeze'): regs[i.dest] = val(i.a, getattr(i, 'ft', None))
            elif op in ('zext','sext','trunc'):
                v = val(i.a, i.ft)
                if isint(v):
                    fb = m.resolve(i.ft).bits; tb = m.resolve(i.tt).bits
                    if op == 'zext': v = v & ((1 << fb) - 1)
                    elif op == 'trunc':
                        v = v & ((1 << tb) - 1)
                        if tb > 1 and v >= 1 << (tb - 1): v -= 1 << tb
                    regs[i.dest] = v
                elif z3.is_bool(v): regs[i.dest] = v   # i1 kept as Bool
                else: raise Exception('sym int cast')
            elif op in ('sitofp','uitofp'):
                v = val(i.a, i.ft)
                if z3.is_bool(v): v = z3.If(v, z3.RealVal(1), z3.RealVal(0))
                regs[i.dest] = as_real(v)
            elif op in ('fadd','fsub','fmul','fdiv'):
                a = as_real(val(i.a, i.ty)); b = as_real(val(i.b, i.ty)); C = E.ctx
                if op == 'fadd': r = C.fadd(a, b)
                elif op == 'fsub': r = C.fadd(a, C.neg(b))
                elif op == 'fmul': r = C.fmul(a, b)
                else: r = C.fdiv(a, b)
                regs[i.dest] = r
            elif op == 'fneg': regs[i.dest] = E.ctx.neg(as_real(val(i.a, i.ty)))
            elif op == 'fcmp':
                a = as_real(val(i.a, i.ty)); b = as_real(val(i.b, i.ty)); pr = i.pred
                if b is INF or a is INF or (z3.is_expr(b) and b.eq(INF)) or (z3.is_expr(a) and a.eq(INF)):
                    # finite-domain abstraction: nothing equals +inf, everything is below it
                    ainf = z3.is_expr(a) and a.eq(INF)
                    tv = {'oeq': False, 'ueq': False, 'one': True, 'une': True, 'olt': not ainf, 'ult': not ainf, 'ole': not ainf, 'ule': not ainf,
                          'ogt': ainf, 'ugt': ainf, 'oge': ainf, 'uge': ainf}[pr]
                    regs[i.dest] = z3.BoolVal(tv); continue
                r = {'oeq': a == b, 'ueq': a == b, 'one': a != b, 'une': a != b, 'olt': a < b, 'ult': a < b, 'ole': a <= b, 'ule': a <= b,
                     'ogt': a > b, 'ugt': a > b, 'oge': a >= b, 'uge': a >= b, 'ord': z3.BoolVal(True), 'uno': z3.BoolVal(False), 'true': z3.BoolVal(True), 'false': z3.BoolVal(False)}[pr]
                if pr in ('oge','ole','uge','ule','olt','ogt','ult','ugt') and not (z3.is_rational_value(a) and z3.is_rational_value(b)):
                    if not (pr in ('oeq','ueq')): E.ties.append(z3.simplify(a == b))
                regs[i.dest] = z3.simplify(r)
            elif op == 'icmp':
                a = val(i.a, i.ty); b = val(i.b, i.ty)
                if isinstance(a, tuple) or isinstance(b, tuple):
                    regs[i.dest] = (a == b) if i.pred == 'eq' else (a != b)
                elif isint(a) and isint(b):
                    bits = getattr(m.resolve(i.ty), 'bits', 64)
                    ua, ub = a & ((1 << bits) - 1), b & ((1 << bits) - 1)
                    sa = ua - (1 << bits) if ua >> (bits - 1) else ua; sb = ub - (1 << bits) if ub >> (bits - 1) else ub
                    regs[i.dest] = {'eq': ua == ub, 'ne': ua != ub, 'slt': sa < sb, 'sle': sa <= sb, 'sgt': sa > sb, 'sge': sa >= sb,
                                    'ult': ua < ub, 'ule': ua <= ub, 'ugt': ua > ub, 'uge': ua >= ub}[i.pred]
                elif (z3.is_bool(a) or isinstance(a, bool)) and isint(b):
                    bb = z3.BoolVal(bool(b)); aa = a if z3.is_bool(a) else z3.BoolVal(a)
                    regs[i.dest] = z3.simplify(aa == bb if i.pred == 'eq' else aa != bb)
                else: raise Exception('sym icmp %r %r' % (a, b))
            elif op in ('add','sub','mul','and','or','xor','shl','lshr','ashr','sdiv','udiv','srem','urem'):
                a = val(i.a, i.ty); b = val(i.b, i.ty); bits = m.resolve(i.ty).bits
                if bits == 1 and (z3.is_bool(a) or z3.is_bool(b) or isinstance(a, bool) or isinstance(b, bool)):
                    A = a if z3.is_bool(a) else z3.BoolVal(bool(a)); B = b if z3.is_bool(b) else z3.BoolVal(bool(b))
                    regs[i.dest] = z3.simplify({'and': z3.And(A, B), 'or': z3.Or(A, B), 'xor': z3.Xor(A, B)}[op])
                elif isint(a) and isint(b):
                    M = (1 << bits) - 1
                    def sg(x): x &= M; return x - (1 << bits) if x >> (bits - 1) else x
                    r = {'add': lambda: a + b, 'sub': lambda: a - b, 'mul': lambda: a * b, 'and': lambda: a & b, 'or': lambda: a | b, 'xor': lambda: a ^ b,
                         'shl': lambda: a << b, 'lshr': lambda: (a & M) >> b, 'ashr': lambda: sg(a) >> b, 'sdiv': lambda: int(sg(a) / sg(b)), 'udiv': lambda: (a & M) // (b & M),
                         'srem': lambda: sg(a) - sg(b) * int(sg(a) / sg(b)), 'urem': lambda: (a & M) % (b & M)}[op]()
                    regs[i.dest] = sg(r) if bits > 1 else (r & 1)
                else: raise Exception('sym int arith %s %r %r' % (op, a, b))
            elif op == 'select':
                c = val(i.c); a = val(i.a, i.ty); b = val(i.b, i.ty)
                if isinstance(c, (bool, int)): regs[i.dest] = a if c else b
                elif isinstance(m.resolve(i.ty), DblT): regs[i.dest] = z3.simplify(z3.If(c, as_real(a), as_real(b)))
                elif z3.is_bool(a) or z3.is_bool(b):
                    A = a if z3.is_bool(a) else z3.BoolVal(bool(a)); B = b if z3.is_bool(b) else z3.BoolVal(bool(b))
                    regs[i.dest] = z3.simplify(z3.If(c, A, B))
                else:
                    # integer/pointer select on symbolic cond: fork
                    regs[i.dest] = a if E.branch(c) else b
            elif op == 'jmp': prev, cur = cur, i.to; break
            elif op == 'br':
                c = val(i.c)
                d = bool(c) if isinstance(c, (bool, int)) else E.branch(c)
                prev, cur = cur, (i.t if d else i.f); break
            elif op == 'switch':
                v = val(i.v, i.ty)
                if not isint(v): raise Exception('sym switch')
                bits = m.resolve(i.ty).bits; tgt = i.default
                for cv, l in i.cases:
                    if (cv - v) & ((1 << bits) - 1) == 0: tgt = l; break
                prev, cur = cur, tgt; break
            elif op == 'ret': return val(i.v, i.ty) if i.v is not None else None
            elif op == 'unreachable' or op == 'landingpad': raise Abort('unreachable')
            elif op == 'call':
                cal = i.callee
                if cal[0] != 'glob': raise Exception('indirect call')
                nm = cal[1]
                av = [val(a, t) for (t, a, bv) in i.args]
                if nm.startswith('@llvm.lifetime') or nm.startswith('@llvm.dbg') or nm.startswith('@llvm.experimental.noalias') or nm == '@llvm.assume': r = None
                elif nm == '@__verif_assert':
                    c = av[0]
                    if isinstance(c, (int, bool)):
                        if not c: E.asserts.append(z3.BoolVal(False))
                    else: E.asserts.append(c)
                    r = None
                elif nm == '@__verif_error': E.errors += 1; raise Abort('cmac_error')
                elif nm.startswith('@llvm.memset'): E.memset0(av[0], av[2]); r = None
                elif nm.startswith('@llvm.memcpy') or nm.startswith('@llvm.memmove'): E.memcpy(av[0], av[1], av[2]); r = None
                elif nm == '@llvm.fabs.f64':
                    a = as_real(av[0]); r = z3.simplify(z3.If(a >= 0, a, -a))
                elif nm == '@sqrt' or nm == '@llvm.sqrt.f64': r = E.ctx.fun1('sqrt', as_real(av[0]))
                elif nm == '@pow' or nm == '@llvm.pow.f64': r = E.ctx.fun2('pow', as_real(av[0]), as_real(av[1]))
                elif nm in ('@llvm.maxnum.f64', '@llvm.minnum.f64'):
                    a, b = as_real(av[0]), as_real(av[1]); r = z3.simplify(z3.If(a >= b, a, b) if 'max' in nm else z3.If(a <= b, a, b))
                elif nm in E.m.funcs:
                    r = run_function(E, nm, av)
                else: raise Exception('extern call %s' % nm)
                if i.dest is not None: regs[i.dest] = r
                if i.normal is not None:
                    prev, cur = cur, i.normal; break
            else: raise Exception('op %s' % op)
        else:
            raise Exception('fell off block')

def load_global(E, p, ty):
    raise Exception('global load %r' % (p,))

def explore(m, ctx_factory, setup, fname, on_path, maxpaths=100000):
    """DFS by re-execution. setup(E)->args ; on_path(E, ret)"""
    work = [[]]; n = 0; stats = {'paths': 0, 'aborted': 0, 'infeasible': 0}
    while work:
        dec = work.pop()
        solver = z3.Solver(); ctx = ctx_factory()
        E = Exec(m, ctx, solver); E.decisions = list(dec)
        args = setup(E)
        try:
            ret = run_function(E, fname, args)
            stats['paths'] += 1
            on_path(E, ret)
        except Abort as a:
            stats['aborted'] += 1; on_path(E, ('abort', str(a)))
        except PathEnd:
            stats['infeasible'] += 1
        work.extend(E.pending)
        n += 1
        if n > maxpaths: raise Exception('too many paths')
    return stats
