import sys, time, z3
sys.setrecursionlimit(10000)
from irz import *
m = parse_module('w_s1.ll')
names = ['gamma','rhoL','PL','rhoR','PR'] 
def setup(E):
    g = {n: z3.Real(n) for n in names}
    E.inputs = dict(g)
    def vec(nm, vals=None):
        p = E.alloc(24)
        for k in range(3):
            v = z3.Real('%s%d' % (nm, k)) if vals is None else vals[k]
            E.inputs['%s%d' % (nm, k)] = v
            E.store((p[0], 8 * k), DblT(), v)
        return p
    uL = vec('uL'); uR = vec('uR'); vf = vec('vf')
    n = vec('n', [z3.RealVal(1), z3.RealVal(0), z3.RealVal(0)])
    o1 = E.alloc(40); o2 = E.alloc(40)
    E.o1, E.o2 = o1, o2
    s = E.solver
    s.add(g['gamma'] > 1, g['gamma'] <= 2, g['rhoL'] >= 0, g['rhoR'] >= 0, g['PL'] >= 0, g['PR'] >= 0)
    return [g['gamma'], g['rhoL'], uL, g['PL'], g['rhoR'], uR, g['PR'], n, vf, o1, o2]
res = {'ok': 0, 'cex': []}
def on_path(E, ret):
    if isinstance(ret, tuple) and ret and ret[0] == 'abort':
        print('ABORT path', ret); return
    E.flush_axioms()
    outs1 = [E.load((E.o1[0], 8 * k), DblT()) for k in range(5)]
    outs2 = [E.load((E.o2[0], 8 * k), DblT()) for k in range(5)]
    bad = z3.Or([as_real(a) != -as_real(b) for a, b in zip(outs1, outs2)])
    E.solver.push(); E.solver.add(bad); r = E.solver.check()
    if r == z3.unsat: res['ok'] += 1
    else:
        mdl = E.solver.model() if r == z3.sat else None
        res['cex'].append((r, {k: mdl.eval(v, model_completion=True) for k, v in E.inputs.items()} if mdl else None, list(E.decisions)))
    E.solver.pop()
t = time.time()
st = explore(m, Ctx, setup, '@h_antisym', on_path)
print(st, 'ok', res['ok'], 'cex', len(res['cex']), 'time %.1fs' % (time.time() - t))
for c in res['cex'][:3]: print(c[0], {k: str(v) for k, v in c[1].items()} if c[1] else None)
