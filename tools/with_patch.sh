#!/bin/sh
# usage: with_patch.sh <patch> <timeout-seconds> <command...>   applies the patch to /repo, runs the command, ALWAYS reverts /repo
P=$1; T=$2; shift 2
cleanup() { git -C /repo checkout -- . ; }
trap cleanup EXIT INT TERM
git -C /repo apply "$P" || exit 9
timeout -k 5 "$T" "$@"
echo "exit=$?"
