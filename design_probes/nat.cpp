#include "HLLCRiemannSolver.hpp"
#include <random>
#include <cstdio>
#include <cstring>
int main(){ std::mt19937_64 g(1); std::uniform_real_distribution<double> U(0,1);
 long bad[5]={0,0,0,0,0}, n=0, tie=0;
 for(int it=0; it<2000000; ++it){ double gam=1.01+U(g); HLLCRiemannSolver s(gam);
   double rL=std::pow(10,6*U(g)-3), rR=std::pow(10,6*U(g)-3), PL=std::pow(10,6*U(g)-3), PR=std::pow(10,6*U(g)-3);
   CoordinateVector<> uL(4*U(g)-2,4*U(g)-2,4*U(g)-2), uR(4*U(g)-2,4*U(g)-2,4*U(g)-2), vf(U(g)-.5,U(g)-.5,U(g)-.5);
   int ax=it%3; CoordinateVector<> N(0.); N[ax]=1.; CoordinateVector<> MN(0.); MN[ax]=-1.;
   double m1=0,E1=0,m2=0,E2=0; CoordinateVector<> p1,p2;
   s.solve_for_flux(rL,uL,PL,rR,uR,PR,m1,p1,E1,N,vf); s.solve_for_flux(rR,uR,PR,rL,uL,PL,m2,p2,E2,MN,vf);
   double o1[5]={m1,p1[0],p1[1],p1[2],E1}, o2[5]={m2,p2[0],p2[1],p2[2],E2}; ++n;
   for(int k=0;k<5;k++) if(o1[k]!=-o2[k]){ if(bad[k]<2) printf("k=%d %.17g %.17g rel %.3g\n",k,o1[k],o2[k],(o1[k]+o2[k])/(fabs(o1[k])+1e-300)); bad[k]++; }
 }
 printf("n=%ld bad: %ld %ld %ld %ld %ld\n",n,bad[0],bad[1],bad[2],bad[3],bad[4]); }
