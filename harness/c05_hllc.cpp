// C05: the REAL HLLCRiemannSolver.hpp / ExactRiemannSolver.hpp vacuum code.
#include "HLLCRiemannSolver.hpp"
#include "ExactRiemannSolver.hpp"
extern "C" {
#ifndef NX
#define NX 1.
#define NY 0.
#define NZ 0.
#endif
struct Flux { double m, p[3], E; };
static inline bool dom(double x) { double a = x < 0. ? -x : x; return (a == 0.) | ((a >= 0x1p-100) & (a <= 0x1p100)); }
static inline void in_state(double &gamma, double &rhoL, double *uL, double &PL, double &rhoR, double *uR, double &PR, double *vf) {
  gamma = nondet_double(); rhoL = nondet_double(); PL = nondet_double(); rhoR = nondet_double(); PR = nondet_double();
  for (int k = 0; k < 3; ++k) { uL[k] = nondet_double(); uR[k] = nondet_double(); vf[k] = nondet_double(); }
  __CPROVER_assume(gamma > 1.00000001 && gamma <= 2.);
  __CPROVER_assume(rhoL >= 0. && PL >= 0. && rhoR >= 0. && PR >= 0.);
  // stated domain: every input is exactly 0 or has magnitude in [2^-100, 2^100] (60 decades): no intermediate can overflow or underflow
  bool ok = dom(rhoL) & dom(PL) & dom(rhoR) & dom(PR);
  for (int k = 0; k < 3; ++k) ok = ok & dom(uL[k]) & dom(uR[k]) & dom(vf[k]);
  __CPROVER_assume(ok);
}
// S1/S2: exchanging the states and reversing the normal negates the whole flux (vacuum on either side and vacuum generation included)
__attribute__((noinline)) void h_s1_antisym(void) {
  double gamma, rhoL, uL[3], PL, rhoR, uR[3], PR, vf[3];
  in_state(gamma, rhoL, uL, PL, rhoR, uR, PR, vf);
#ifdef CASE_NONVAC
  __CPROVER_assume(rhoL > 0. && PL > 0. && rhoR > 0. && PR > 0.);
#endif
#ifdef CASE_VACL
  __CPROVER_assume(rhoL == 0. && rhoR > 0. && PR > 0.);
#endif
#ifdef CASE_VACR
  __CPROVER_assume(rhoR == 0. && rhoL > 0. && PL > 0.);
#endif
  HLLCRiemannSolver s(gamma);
  CoordinateVector<> UL(uL[0], uL[1], uL[2]), UR(uR[0], uR[1], uR[2]), N(NX, NY, NZ), MN(-(NX), -(NY), -(NZ)), VF(vf[0], vf[1], vf[2]);
  CoordinateVector<> p1, p2; double m1 = 0, E1 = 0, m2 = 0, E2 = 0;
  s.HLLCRiemannSolver::solve_for_flux(rhoL, UL, PL, rhoR, UR, PR, m1, p1, E1, N, VF);
  s.HLLCRiemannSolver::solve_for_flux(rhoR, UR, PR, rhoL, UL, PL, m2, p2, E2, MN, VF);
  __verif_check(m2 == -m1);
  __verif_check(p2[0] == -p1[0]);
  __verif_check(p2[1] == -p1[1]);
  __verif_check(p2[2] == -p1[2]);
  __verif_check(E2 == -E1);
}
// S2: Galilean boost - the flux through a face moving with velocity w equals the flux computed in the rest frame of the face
// (states boosted by -w, static face) transformed back with the Euler boost:  m' = m,  E' = E + w.p + |w|^2 m / 2,  p' = p + m w
__attribute__((noinline)) void h_s2_galilean(void) {
  double gamma, rhoL, uL[3], PL, rhoR, uR[3], PR, vf[3];
  in_state(gamma, rhoL, uL, PL, rhoR, uR, PR, vf);
#ifdef CASE_NONVAC
  __CPROVER_assume(rhoL > 0. && PL > 0. && rhoR > 0. && PR > 0.);
#endif
#ifdef CASE_VACL
  __CPROVER_assume(rhoL == 0. && rhoR > 0. && PR > 0.);
#endif
#ifdef CASE_VACR
  __CPROVER_assume(rhoR == 0. && rhoL > 0. && PL > 0.);
#endif
  HLLCRiemannSolver s(gamma);
  CoordinateVector<> UL(uL[0], uL[1], uL[2]), UR(uR[0], uR[1], uR[2]), N(NX, NY, NZ), VF(vf[0], vf[1], vf[2]), ZERO(0., 0., 0.);
  CoordinateVector<> p1, p2; double m1 = 0, E1 = 0, m2 = 0, E2 = 0;
  s.HLLCRiemannSolver::solve_for_flux(rhoL, UL, PL, rhoR, UR, PR, m1, p1, E1, N, VF);                 // moving face
  s.HLLCRiemannSolver::solve_for_flux(rhoL, UL - VF, PL, rhoR, UR - VF, PR, m2, p2, E2, N, ZERO);     // rest frame of the face
  const double w2 = VF.norm2();
  const double E2b = E2 + (CoordinateVector<>::dot_product(VF, p2) + 0.5 * w2 * m2);                  // energy boost uses the rest-frame momentum flux
  const CoordinateVector<> p2b = p2 + m2 * VF;
  __verif_check(m1 == m2);
  __verif_check(p1[0] == p2b[0]);
  __verif_check(p1[1] == p2b[1]);
  __verif_check(p1[2] == p2b[2]);
  __verif_check(E1 == E2b);
}
uint64_t tv_flux(const uint64_t *in) {
  double d[16]; for (int k = 0; k < 14; ++k) { __builtin_memcpy(&d[k], &in[k], 8); if (!(d[k] == d[k])) d[k] = 1.; }
  double gamma = 1.1 + (in[0] % 9) * 0.1; double rhoL = d[1] < 0 ? -d[1] : d[1], PL = d[2] < 0 ? -d[2] : d[2], rhoR = d[3] < 0 ? -d[3] : d[3], PR = d[4] < 0 ? -d[4] : d[4];
  if ((in[0] >> 8) % 7 == 0) rhoL = 0.; if ((in[0] >> 12) % 7 == 0) rhoR = 0.;
  HLLCRiemannSolver s(gamma);
  CoordinateVector<> UL(d[5], d[6], d[7]), UR(d[8], d[9], d[10]), N(NX, NY, NZ), VF(d[11], d[12], d[13]);
  CoordinateVector<> p; double m = 0, E = 0;
  s.HLLCRiemannSolver::solve_for_flux(rhoL, UL, PL, rhoR, UR, PR, m, p, E, N, VF);
  uint64_t h = 0, b; double o[5] = {m, p[0], p[1], p[2], E};
  for (int k = 0; k < 5; ++k) { __builtin_memcpy(&b, &o[k], 8); if (o[k] != o[k]) b = 0x7ff8000000000000ULL; /* one NaN (sign and payload are not part of the comparison) */ h = h * 1000003u + b; }
  return h;
}
}
