#pragma once
extern "C" double __verif_clock(void);
struct Timer { double interval(){ return __verif_clock(); } void reset(){} void start(){} };
