// C16-K2: REAL AMRGridCell (one refinement level): the child selected for a position is the octant the position lies in
#include "AMRGridCell.hpp"
struct Payload { int v; };
extern "C" {
__attribute__((noinline)) void h_k2_child(void) {
  double a[3], s[3], p[3];
  for (int k = 0; k < 3; ++k) { a[k] = nondet_double(); s[k] = nondet_double(); p[k] = nondet_double(); __CPROVER_assume(s[k] > 0.); }
  Box<> box(CoordinateVector<>(a[0], a[1], a[2]), CoordinateVector<>(s[0], s[1], s[2]));
  AMRGridCell< Payload > cell(box, 0, nullptr);
  cell.create_all_cells(0, 1);                                           // real refinement: 8 children with their own boxes
  const CoordinateVector<> pos(p[0], p[1], p[2]);
  AMRGridCell< Payload > *c = cell.get_child(pos);
  __verif_check(c != nullptr);
  __verif_check(c->get_parent() == &cell);
  __verif_check(c->get_level() == 1);
  const Box<> cb = c->get_geometry();
  for (int k = 0; k < 3; ++k) {
    const double mid = a[k] + 0.5 * s[k];                               // the mid-plane of the parent along axis k
    // above the mid-plane: the child starts at the mid-plane; otherwise it starts at the parent's anchor; it is half as wide
    if (p[k] > mid) { __verif_check(cb.get_anchor()[k] == mid); __verif_check(p[k] > cb.get_anchor()[k]); }
    else { __verif_check(cb.get_anchor()[k] == a[k]); __verif_check(p[k] <= cb.get_anchor()[k] + cb.get_sides()[k]); }
    __verif_check(cb.get_sides()[k] == 0.5 * s[k]);
  }
  // the 8 children are distinct objects and each octant index maps to the child with that octant's anchor
  for (int i = 0; i < 8; ++i) {
    AMRGridCell< Payload > *ci = cell.get_child(i);
    __verif_check(ci != nullptr);
    const Box<> bi = ci->get_geometry();
    __verif_check(bi.get_anchor()[0] == (((i >> 2) & 1) ? a[0] + 0.5 * s[0] : a[0]));
    __verif_check(bi.get_anchor()[1] == (((i >> 1) & 1) ? a[1] + 0.5 * s[1] : a[1]));
    __verif_check(bi.get_anchor()[2] == ((i & 1) ? a[2] + 0.5 * s[2] : a[2]));
  }
}
// two refinement levels: descending twice lands in the grandchild on the position's side of both mid-planes, per axis
__attribute__((noinline)) void h_k2_child2(void) {
  double a[3], s[3], p[3];
  for (int k = 0; k < 3; ++k) { a[k] = nondet_double(); s[k] = nondet_double(); p[k] = nondet_double(); __CPROVER_assume(s[k] > 0.); }
  Box<> box(CoordinateVector<>(a[0], a[1], a[2]), CoordinateVector<>(s[0], s[1], s[2]));
  AMRGridCell< Payload > cell(box, 0, nullptr);
  cell.create_all_cells(0, 2);
  const CoordinateVector<> pos(p[0], p[1], p[2]);
  AMRGridCell< Payload > *c1 = cell.get_child(pos); __verif_check(c1 != nullptr && !c1->is_single_cell());
  AMRGridCell< Payload > *c2 = c1->get_child(pos); __verif_check(c2 != nullptr && c2->is_single_cell());
  __verif_check(c2->get_parent() == c1 && c2->get_level() == 2);
  const Box<> b1 = c1->get_geometry(), b2 = c2->get_geometry();
  for (int k = 0; k < 3; ++k) {
    const double mid1 = b1.get_anchor()[k] + 0.5 * b1.get_sides()[k];     // mid-plane of the level-1 cell that was selected
    if (p[k] > mid1) __verif_check(b2.get_anchor()[k] == mid1); else __verif_check(b2.get_anchor()[k] == b1.get_anchor()[k]);
    __verif_check(b2.get_sides()[k] == 0.5 * b1.get_sides()[k]);
    __verif_check(b1.get_sides()[k] == 0.5 * s[k]);
  }
}
}
