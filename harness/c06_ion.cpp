// C06-I1/I3: REAL IonizationStateCalculator::compute_ionization_state_hydrogen (closed form of the H-only balance)
#include "IonizationStateCalculator.cpp"
extern "C" {
static inline bool posd(double x) { return (x >= 0x1p-100) & (x <= 0x1p100); }
__attribute__((noinline)) void h_i1_hydrogen(void) {
  const double alphaH = nondet_double(), jH = nondet_double(), nH = nondet_double();
  __CPROVER_assume(posd(alphaH) & ((jH == 0.) | posd(jH)) & ((nH == 0.) | posd(nH)));
  const double h0 = IonizationStateCalculator::compute_ionization_state_hydrogen(alphaH, jH, nH);
  __verif_check(h0 >= 1.e-14);                                  // never below the floor
  __verif_check(h0 <= 1.);                                      // never above 1 (no round-off excess: 1 + aa*(1-cc) with cc >= 1)
  if (jH == 0. || nH == 0.) __verif_check(h0 == 1.);            // no radiation or no gas: neutral
}
// monotonicity in the Taylor branch (exact there: every operation is monotone and rounding is monotone)
__attribute__((noinline)) void h_i1_monotone_taylor(void) {
  const double alphaH = nondet_double(), j1 = nondet_double(), j2 = nondet_double(), nH = nondet_double();
  __CPROVER_assume(posd(alphaH) & posd(j1) & posd(j2) & posd(nH) & (j1 <= j2));
  const double aa1 = 0.5 * j1 / (nH * alphaH), aa2 = 0.5 * j2 / (nH * alphaH);
  __CPROVER_assume((2. / aa1 < 1.e-10) & (2. / aa2 < 1.e-10));   // both in the large-flux (Taylor) branch
  const double a = IonizationStateCalculator::compute_ionization_state_hydrogen(alphaH, j1, nH), b = IonizationStateCalculator::compute_ionization_state_hydrogen(alphaH, j2, nH);
  __verif_check(b <= a);                                         // more radiation never gives a larger neutral fraction
}
}
