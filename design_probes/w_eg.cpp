#include "ExactGeometricTests.hpp"
extern "C" {
__attribute__((noinline)) int eg_orient_exact(const double*a,const double*b,const double*c,const double*d){ return ExactGeometricTests::orient3d_exact(CoordinateVector<>(a[0],a[1],a[2]),CoordinateVector<>(b[0],b[1],b[2]),CoordinateVector<>(c[0],c[1],c[2]),CoordinateVector<>(d[0],d[1],d[2])); }
__attribute__((noinline)) int eg_insphere_exact(const double*a,const double*b,const double*c,const double*d,const double*e){ return ExactGeometricTests::insphere_exact(CoordinateVector<>(a[0],a[1],a[2]),CoordinateVector<>(b[0],b[1],b[2]),CoordinateVector<>(c[0],c[1],c[2]),CoordinateVector<>(d[0],d[1],d[2]),CoordinateVector<>(e[0],e[1],e[2])); }
__attribute__((noinline)) int eg_orient_adaptive(const double*a,const double*b,const double*c,const double*d){ return ExactGeometricTests::orient3d_adaptive(CoordinateVector<>(a[0],a[1],a[2]),CoordinateVector<>(b[0],b[1],b[2]),CoordinateVector<>(c[0],c[1],c[2]),CoordinateVector<>(d[0],d[1],d[2])); }
}
