#include <assert.h>
#include <stddef.h>
void __verif_check(unsigned int c){ assert(c); }
void __verif_error(void){ assert(0); __CPROVER_assume(0); }
void *p1_new(unsigned long n); void p1_worker(void *v, unsigned int id); unsigned long p1_taken(void *v);
int main(void){ void *v = p1_new(2);
  __CPROVER_ASYNC_1: p1_worker(v, 1);
  __CPROVER_ASYNC_2: p1_worker(v, 2);
  p1_worker(v, 3);
#ifdef WITNESS
  assert(0);
#endif
  return 0; }
