#include "mrepo/RestartManager.real.hpp"
extern "C" {
unsigned long nondet_ulong(void); void __CPROVER_assume(int); void __verif_check(int);
#define NB 9
int fs_dump; int fs_back[NB];   /* 0 absent, v>0 complete version v, -1 truncated/partial */
int __verif_strkind(const char *s){
  if (s[0]=='.') return 6;                         /* ".back" */
  if (s[1]=='s') return 3;                         /* "/stop" */
  if (s[9]==0) return 5;                           /* "/restart." */
  if (s[9]=='d') return 1;                         /* "/restart.dump" */
  return 2;                                        /* "/restart.0.back" -> back, idx 0 */
}
static int *slot(const void *p){ const std::string *s=(const std::string*)p; return s->kind==1 ? &fs_dump : &fs_back[s->idx]; }
int __verif_rename(const void *a, const void *b){
  const std::string *sa=(const std::string*)a, *sb=(const std::string*)b;
  __verif_check(sa->kind==1 || (sa->kind==2 && sa->idx<NB)); __verif_check(sb->kind==2 && sb->idx<NB);
  int *pa=slot(a), *pb=slot(b); if (*pa==0) return -1; *pb=*pa; *pa=0; return 0; }
void __verif_open_trunc(const void *f){ const std::string *s=(const std::string*)f; __verif_check(s->kind==1); fs_dump=-1; }
int __verif_remove(const void*){ return 0; } int __verif_file_exists(const void*){ return 0; } double __verif_clock(void){ return 0.; }
__attribute__((noinline)) void h_rm_step(void){
  unsigned long maxb = nondet_ulong(), d = nondet_ulong();
  __CPROVER_assume(maxb <= MAXB && d <= 6);
  unsigned long nb = d==0 ? 0 : (d-1 < maxb ? d-1 : maxb);
  fs_dump = d>0 ? (int)d : 0;
  for (unsigned long i=0;i<NB;i++) fs_back[i] = (i<nb) ? (int)(d-1-i) : 0;
  RestartManager m(std::string(), 0., maxb, 0., std::string());
  m._number_of_restarts = d; m._number_of_backups = nb;
  RestartWriter *w = m.get_restart_writer(nullptr);
  __verif_check(fs_dump == -1);
  fs_dump = (int)(d+1);                       /* the write completes */
  unsigned long d2=d+1, nb2 = (d2-1 < maxb ? d2-1 : maxb);
  __verif_check(m._number_of_restarts == d2);
  __verif_check(m._number_of_backups == nb2);
  for (unsigned long i=0;i<NB;i++) __verif_check(fs_back[i] == ((i<nb2) ? (int)(d2-1-i) : 0));
}
}
