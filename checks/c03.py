import os, sys
from vlib import *

def harnesses():
    H = []
    H.append(AHarness('T1_tables', 'c03_t1.cpp', 'h_t1_tables', unwind=4, what='output_to_input_direction is an involution mapping each face/edge/corner to the opposite one; is_compatible_output_direction(d,c) == is_compatible_input_direction(d,o2i(c)) == independent sign reference, for every c in 0..26 and every triple of doubles (NaN included)',
                      bound='exhaustive over c in [0,27), d in all binary64 triples; no loops'))
    H.append(AHarness('T1_mask', 'c03_t1.cpp', 'h_t1_mask', unwind=4, what='get_output_direction is -1 exactly on the 37 illegal masks, injective on the 27 legal ones and names exactly the walls whose mask bits are set',
                      bound='exhaustive over mask, mask2 in [0,64)'))
    return H

def b_harnesses(tier):
    return [BHarness('T2_entry', 'c03_t2.cpp', 'h_t2_entry', timeout=900, cflags=['-fopenmp'],
        what='hand-over bookkeeping: entering through classification c, update_photon_position snaps exactly the axes c fixes, each to the wall of ITS OWN axis (n_k*size_k or 0), leaves the free axes untouched, and get_x/y/z_index start in the last/first cell on the fixed axes and compute the index from the coordinate on the free ones',
        bound='all 27 entry classifications (one path family each), cells per axis symbolic in [1,1024], cell sizes / inverse sizes / position symbolic reals')]

def run(tier, only=None):
    ev = Evidence('C03', tier); work = Work('C03')
    ev.assumptions += ['cmac_error/cmac_assert macros of Error.hpp replaced by checked hooks (reaching cmac_error is a failed obligation)', 'allocation failure outside the claim (--no-malloc-may-fail)']
    ev.stubs += ['T3: HydroDensitySubGrid constructor -> light initialiser, operator new -> typed static storage (the neighbour table is written by the REAL create_subgrid loop)']
    ev.outside += ['T4: copy levels > 2, layouts beyond those listed, reallocation of the std::vectors while copies are created (storage is preallocated), the OpenMP-parallel folding loop (run sequentially), update_copy_properties', 'numerical equality of estimators between split and unsplit grids for arbitrary packets (real-number clause)', 'layouts > 3 sub-grids per axis']
    try:
        tv_run(work, 'c03_t1.cpp', [('tv_o2i', 1), ('tv_mask', 1), ('tv_compat', 4)], ev)
        import c07
        hs = [h for h in harnesses() + c07.t3_harnesses(tier) + c07.t4_harnesses(tier) if not only or h.name.startswith(only)]
        violations, broken = run_engine_a('C03', tier, hs, ev, work)
        hb = [h for h in b_harnesses(tier) if not only or h.name.startswith(only)]
        v2, b2 = run_engine_b('C03', tier, hb, ev, work); violations += v2; broken += b2
    except Broken as b:
        violations, broken = [], [str(b)]
    work.clean()
    finish(ev, violations, '; '.join(broken) if broken else None)

def replay(path): return generic_replay(path, harnesses())
