"""Shared driver code: compile harness TUs to IR from /repo's current tree, translate, run cbmc/z3 with
budgets, translation validation, replay, known findings, evidence."""
import os, sys, re, json, time, subprocess, shutil, hashlib, tempfile, struct, resource
from concurrent.futures import ThreadPoolExecutor

VERIF = os.path.dirname(os.path.dirname(os.path.abspath(__file__)))
REPO = os.environ.get('VERIF_REPO', '/repo')
SRC = os.path.join(REPO, 'src')
sys.path.insert(0, os.path.join(VERIF, 'lib'))
import ir, irc

GUARD = 'CMACIONIZE_VERIF'

def cfg_dir():
    d = os.path.join(REPO, '_build', 'src')
    return d if os.path.exists(os.path.join(d, 'Configuration.hpp')) else os.path.join(VERIF, 'cfg')

def base_flags(std='c++11'):
    return ['-std=' + std, '-O1', '-fno-vectorize', '-fno-slp-vectorize', '-fno-unroll-loops', '-ffp-contract=off',
            '-fno-access-control', '-D' + GUARD, '-Wno-everything',
            '-include', os.path.join(VERIF, 'env', 'verif_env.hpp'),
            '-I/usr/include/hdf5/serial', '-I/usr/lib/x86_64-linux-gnu/openmpi/include',
            '-I', os.path.join(VERIF, 'env'), '-I', SRC, '-I', cfg_dir()]

class Broken(Exception):
    """the machinery (not the code under test) failed: never reported as a violation or as success"""

def sh(cmd, timeout=None, env=None, cwd=None, mem_gb=None):
    def lim():
        if mem_gb: resource.setrlimit(resource.RLIMIT_AS, (int(mem_gb * 2**30), int(mem_gb * 2**30)))
        os.setsid()
    t0 = time.time()
    p = subprocess.Popen(cmd, stdout=subprocess.PIPE, stderr=subprocess.PIPE, env=env, cwd=cwd, preexec_fn=lim)
    try:
        out, err = p.communicate(timeout=timeout)
        to = False
    except subprocess.TimeoutExpired:
        try: os.killpg(p.pid, 9)
        except Exception: pass
        out, err = p.communicate(); to = True
    return p.returncode, out.decode(errors='replace'), err.decode(errors='replace'), time.time() - t0, to

class Work:
    """scratch directory under /verif/.work/<id>, removed at the end of the run"""
    def __init__(s, pid):
        s.dir = os.path.join(VERIF, '.work', pid + os.environ.get('VERIF_TAG', ''))      # VERIF_TAG: development runs against a scratch copy (VERIF_REPO) that must not disturb a registered run
        shutil.rmtree(s.dir, ignore_errors=True); os.makedirs(s.dir)
    def path(s, *a): return os.path.join(s.dir, *a)
    def clean(s):
        if not os.environ.get('VERIF_KEEP'): shutil.rmtree(s.dir, ignore_errors=True)

def clang_ir(src, out, defs=(), noinline=False, inline_all=False, extra=(), std='c++11', pre_inc=()):
    cmd = ['clang++-14']
    for d in pre_inc: cmd += ['-I', d]
    cmd += base_flags(std) + ['-S', '-emit-llvm', src, '-o', out]
    for d in defs: cmd.append('-D' + d)
    if noinline: cmd.append('-fno-inline')
    if inline_all: cmd += ['-mllvm', '-inline-threshold=100000']
    cmd += list(extra)
    rc, o, e, dt, to = sh(cmd, timeout=300)
    if rc != 0: raise Broken('clang failed on %s:\n%s' % (src, e[-3000:]))
    return out

def native_build(src, out, defs=(), extra=(), std='c++11', cxx='g++', opt='-O2', pre_inc=(), objs=()):
    """the harness TU compiled natively against the REAL headers (replay / translation validation)"""
    fl = [f.replace('-std=c++', '-std=gnu++') for f in base_flags(std) if f not in ('-fno-vectorize', '-fno-slp-vectorize', '-fno-unroll-loops', '-Wno-everything', '-O1')]
    cmd = [cxx]
    for d in pre_inc: cmd += ['-I', d]
    cmd += fl + ['-w', opt, '-fpermissive', '-fopenmp', '-DOMPI_SKIP_MPICXX', src] + list(objs) + ['-o', out]
    for d in defs: cmd.append('-D' + d)
    cmd += list(extra)
    rc, o, e, dt, to = sh(cmd, timeout=600)
    if rc != 0 and 'undefined reference' in e:
        # the TU defines functions the harness never calls that reference the rest of the program: link anyway (an unresolved call would crash only if reached)
        rc, o, e, dt, to = sh(cmd + ['-no-pie', '-Wl,--warn-unresolved-symbols'], timeout=600)
    if rc != 0: raise Broken('native build failed on %s:\n%s' % (src, e[-3000:]))
    return out

_rt_obj = {}
def native_rt_obj(work):
    o = work.path('native_rt.o')
    if not os.path.exists(o):
        rc, _, e, _, _ = sh(['gcc', '-O1', '-c', os.path.join(VERIF, 'env', 'native_rt.c'), '-o', o])
        if rc: raise Broken('native_rt: ' + e)
    return o

# ------------------------------------------------------------------ cbmc
CBMC_FLAGS = ['--unwinding-assertions', '--pointer-overflow-check', '--undefined-shift-check', '--signed-overflow-check',
              '--drop-unused-functions', '--no-malloc-may-fail', '--div-by-zero-check', '--object-bits', '11']

class CbmcResult:
    def __init__(s): s.status = None; s.failed = []; s.nprops = 0; s.nfail = 0; s.time = 0; s.rss_mb = 0; s.out = ''; s.vccs = 0; s.vccs_remaining = 0; s.nondet = []; s.solver_s = 0.0
    def __repr__(s): return 'Cbmc(%s %d/%d %.1fs %dMB)' % (s.status, s.nfail, s.nprops, s.time, s.rss_mb)

def run_cbmc(cfiles, unwind=None, unwindset=None, flags=None, extra=(), timeout=600, mem_gb=24, defs=(), prop=None, trace=True, backend=None, incdirs=()):
    cmd = ['/usr/bin/time', '-f', 'RSS_KB=%M', 'cbmc'] + list(cfiles)
    cmd += (CBMC_FLAGS if flags is None else list(flags))
    if unwind is not None: cmd += ['--unwind', str(unwind)]
    if unwindset: cmd += ['--unwindset', ','.join('%s:%d' % kv for kv in unwindset.items())]
    for d in defs: cmd += ['-D', d]
    for d in list(incdirs) + [os.path.join(VERIF, 'env')]: cmd += ['-I', d]
    if prop: cmd += ['--property', prop]
    if trace: cmd.append('--trace')
    cmd += ['--verbosity', '9']
    if backend == 'kissat': cmd += ['--external-sat-solver', 'kissat']
    elif backend == 'cadical': cmd += ['--sat-solver', 'cadical']
    elif backend in ('z3', 'cvc5'): cmd.append('--' + backend)
    cmd += list(extra)
    rc, out, err, dt, to = sh(cmd, timeout=timeout, mem_gb=mem_gb)
    r = CbmcResult(); r.time = dt; r.out = out; r.err = err; r.cmd = ' '.join(cmd)
    m = re.search(r'RSS_KB=(\d+)', err); r.rss_mb = int(m.group(1)) // 1024 if m else 0
    m = re.search(r'Generated (\d+) VCC\(s\), (\d+) remaining after simplification', out)
    if m: r.vccs, r.vccs_remaining = int(m.group(1)), int(m.group(2))
    for m in re.finditer(r'Runtime decision procedure: ([0-9.e+-]+)s', out): r.solver_s += float(m.group(1))
    m = re.search(r'(\d+) variables, (\d+) clauses', out); r.sat_vars, r.sat_clauses = (int(m.group(1)), int(m.group(2))) if m else (0, 0)
    m = re.search(r'size of program expression: (\d+) steps', out); r.steps = int(m.group(1)) if m else 0
    if to: r.status = 'timeout'; return r
    res = re.findall(r'^\[([^\]]+)\] (.*): (SUCCESS|FAILURE|UNKNOWN|ERROR)$', out, re.M)
    r.nprops = len(res); r.failed = [(pid, desc) for pid, desc, st in res if st != 'SUCCESS']; r.nfail = len(r.failed)
    r.all_props = res
    if 'VERIFICATION SUCCESSFUL' in out: r.status = 'success'
    elif 'VERIFICATION FAILED' in out: r.status = 'failed'
    else:
        r.status = 'error'
        if 'std::bad_alloc' in err or 'Out of memory' in err or 'out of memory' in out or rc in (-9, 137, 134): r.status = 'oom'
    # nondet values in call order (logged through verif_nd_* shims)
    r.traces = []
    for blk in re.split(r'^Trace for ', out, flags=re.M)[1:]:
        pid_ = blk.split(':', 1)[0].strip()
        ws = [int(m.group(2).replace(' ', ''), 2) for m in re.finditer(r'^\s*verif_nd_log(d?)=.*?\(([01 ]+)\)\s*$', blk, re.M)]
        r.traces.append((pid_, ws))
    r.nondet = r.traces[0][1] if r.traces else []
    return r

def classify_failures(res):
    """split cbmc failures into: unwinding (bound too small), pointer-overflow only, real assertion/bounds failures"""
    unwind = [f for f in res.failed if 'unwinding assertion' in f[1] or '.unwind.' in f[0] or 'recursion unwinding' in f[1]]
    povf = [f for f in res.failed if 'pointer_arithmetic' in f[0] or 'pointer arithmetic' in f[1] or 'pointer relation' in f[1]]
    other = [f for f in res.failed if f not in unwind and f not in povf]
    return unwind, povf, other

def write_main(path, entry, pre=''):
    open(path, 'w').write('''#include <stdint.h>
%s
void %s(void);
int main(void){ %s();
#ifdef WITNESS
  __CPROVER_assert(0, "witness: end of harness reachable");
#endif
  return 0; }
''' % (pre, entry, entry))

# ------------------------------------------------------------------ known findings
def load_known():
    p = os.path.join(VERIF, 'known_findings.json')
    if not os.path.exists(p): return {'known': [], 'fixed': []}
    return json.load(open(p))

def known_for(pid):
    return [k for k in load_known().get('known', []) if k['property'] == pid]

# ------------------------------------------------------------------ evidence
class Evidence:
    def __init__(s, pid, tier):
        s.pid = pid; s.tier = tier; s.t0 = time.time(); s.seed = int(os.environ.get('VERIF_SEED', '0') or 0)
        s.obligations = []      # dicts: harness, what, bound, verdict, solver_s
        s.functions = set(); s.assumptions = []; s.stubs = []; s.bounds = {}; s.outside = []
        s.queries = 0; s.discharged = 0; s.inconclusive = 0; s.nontrivial = 0; s.solver_s = 0.0; s.peak_rss_mb = 0
        s.witnesses = {}; s.tv = {'programs': 0, 'vectors': 0, 'mismatches': 0}; s.violations = []; s.known_hits = []; s.notes = []
        s.replays = 0; s.states = 0; s.transitions = 0
    def add(s, harness, what, bound, verdict, solver_s=0.0, nontrivial=1, extra=None):
        d = {'harness': harness, 'obligation': what, 'bound': bound, 'verdict': verdict, 'solver_s': round(solver_s, 3)}
        if extra:
            d.update(extra)
            s.states += int(extra.get('ssa_steps', 0) or 0) + int(extra.get('paths', 0) or 0)
            s.transitions += int(extra.get('vccs', 0) or 0) + int(extra.get('path_obligations', 0) or 0)
        s.obligations.append(d); s.queries += 1; s.solver_s += solver_s
        if verdict == 'discharged': s.discharged += 1; s.nontrivial += nontrivial
        elif verdict in ('inconclusive', 'timeout', 'oom'): s.inconclusive += 1
    def write(s):
        evdir = os.path.join(VERIF, 'evidence') if not os.environ.get('VERIF_TAG') else os.path.join(VERIF, '.work', 'evidence' + os.environ['VERIF_TAG']); os.makedirs(evdir, exist_ok=True)
        samples = s.obligations[:12]
        ev = {'property_id': s.pid, 'tier': s.tier, 'seed': s.seed, 'level': 'model_checking',
              'coverage': {'evaluations': max(s.queries, 1), 'distinct_nontrivial': max(s.nontrivial, 0),
                           'rule': 'one evaluation = one solver query (a cbmc run over a translated harness, or one z3 check of a path obligation); '
                                   'distinct_nontrivial counts verification conditions / path obligations that remained after simplification and were discharged (unsat) by the solver',
                           'states': max(s.states, 1), 'transitions': max(s.transitions, 1), 'traces_validated_against_impl': s.tv['vectors'] + s.replays,
                           'states_transitions_meaning': 'states = symbolic states encoded (cbmc SSA steps of the unrolled program / symbolic-execution paths completed); transitions = verification conditions or path obligations decided by the solver; traces_validated_against_impl = translation-validation vectors run through both the encoding and the natively compiled real code, plus native replays',
                           'samples': samples, 'obligations': s.queries, 'discharged': s.discharged, 'inconclusive': s.inconclusive,
                           'functions_encoded': sorted(s.functions), 'bounds': s.bounds, 'stubs': s.stubs, 'outside_claim': s.outside,
                           'witnesses': s.witnesses, 'translation_validation': s.tv, 'solver_s': round(s.solver_s, 2), 'peak_rss_mb': s.peak_rss_mb,
                           'replays_against_real_code': s.replays, 'known_findings_hit': s.known_hits, 'notes': s.notes,
                           'all_obligations': s.obligations if len(s.obligations) <= 400 else s.obligations[:400],
                           'exhaustive': False},
              'assumptions': s.assumptions, 'wall_s': round(time.time() - s.t0, 2), 'violations': len(s.violations)}
        json.dump(ev, open(os.path.join(evdir, s.pid + '.json'), 'w'), indent=1, default=str)
        return ev

def save_replay(pid, harness, payload):
    d = os.path.join(VERIF, 'replays', pid); os.makedirs(d, exist_ok=True)
    h = hashlib.sha1(json.dumps(payload, sort_keys=True, default=str).encode()).hexdigest()[:10]
    p = os.path.join(d, '%s-%s.json' % (harness, h)); json.dump(payload, open(p, 'w'), indent=1, default=str)
    return p

def finish(ev, violations, broken=None):
    """common exit protocol"""
    ev.violations = violations
    ev.write()
    for k in ev.known_hits: print('KNOWN-FINDING: property=%s %s' % (ev.pid, k))
    if violations:
        # a violation was replayed against the real code: it stands whatever happened to the other harnesses
        for v in violations: print('VIOLATION property=%s replay=%s' % (ev.pid, v))
        if broken: print('NOTE property=%s: other harnesses of this run were inconclusive: %s' % (ev.pid, broken))
        sys.exit(1)
    if broken:
        print('BROKEN-CHECK property=%s: %s' % (ev.pid, broken)); sys.exit(2)
    print('OK property=%s tier=%s queries=%d discharged=%d inconclusive=%d wall=%.1fs' % (ev.pid, ev.tier, ev.queries, ev.discharged, ev.inconclusive, time.time() - ev.t0))
    sys.exit(0)

# ------------------------------------------------------------------ Engine A harness runner
class AHarness:
    """one cbmc harness: entry function `entry` in harness TU `src` (C++ against the real headers)"""
    def __init__(s, name, src, entry, unwind=None, unwindset=None, defs=(), noinline=False, inline_all=False, redirect=None, allow_ext=(), indirect=None,
                 timeout=600, mem_gb=24, backend=None, flags=None, extra=(), what='', bound='', pre_inc=(), cflags=(), tiers=('quick', 'thorough'),
                 expect_cex=None, std='c++11', native_replay=True, extra_c=(), threads=(), setup=None, post=None, nsteps=0, witness=True):
        s.__dict__.update(locals()); del s.__dict__['s']

_ll_cache = {}
def lower(work, h):
    """clang -> IR -> C; cached per (src, defs, inline mode) within one run"""
    key = (h.src, tuple(h.defs), h.noinline, h.inline_all, tuple(h.pre_inc), tuple(h.cflags), h.std)
    if key not in _ll_cache:
        tag = hashlib.sha1(repr(key).encode()).hexdigest()[:8]
        ll = work.path('%s_%s.ll' % (os.path.basename(h.src).replace('.cpp', ''), tag))
        clang_ir(os.path.join(VERIF, 'harness', h.src), ll, defs=h.defs, noinline=h.noinline, inline_all=h.inline_all, pre_inc=h.pre_inc, extra=h.cflags, std=h.std)
        _ll_cache[key] = ll
    return _ll_cache[key]

def write_seq_main(path, h):
    """A-seq scheduler: the threads are step machines (one atomic operation per step); a nondeterministic scheduler picks the
    thread for each of nsteps steps, so the interleaving is a symbolic variable of a sequential program"""
    T = list(h.threads); n = len(T)
    o = ['#include <stdint.h>', 'unsigned char nondet_uchar(void);']
    for t in T: o.append('void %s_step(void); extern int %s_done;' % (t, t))
    o.append('void %s(void); void %s(void);' % (h.setup, h.post))
    o.append('int main(void){ %s();' % h.setup)
    o.append('  for (int s = 0; s < %d; ++s) { unsigned char pick = nondet_uchar(); __CPROVER_assume(pick < %d);' % (h.nsteps, n))
    for k, t in enumerate(T): o.append('    if (pick == %d) { if (!%s_done) %s_step(); }' % (k, t, t))
    o.append('  }')
    o.append('  __CPROVER_assume(%s);   /* executions that need more than %d scheduled steps (long spins) are outside the bound */' % (' && '.join('%s_done' % t for t in T), h.nsteps))
    o.append('  %s();' % h.post)
    o.append('#ifdef WITNESS\n  __CPROVER_assert(0, "witness: end of harness reachable");\n#endif\n  return 0; }')
    open(path, 'w').write('\n'.join(o) + '\n')

def translate_harness(work, h):
    ll = lower(work, h)
    try:
        if h.threads:
            roots = ['@' + t for t in h.threads] + ['@' + h.setup, '@' + h.post]
            code, g = irc.translate(ll, roots, redirect=h.redirect, allow_ext=h.allow_ext, indirect=h.indirect, step_funcs=['@' + t for t in h.threads])
        else:
            code, g = irc.translate(ll, ['@' + h.entry], redirect=h.redirect, allow_ext=h.allow_ext, indirect=h.indirect)
    except irc.Unencodable as e:
        raise Broken('%s: %s' % (h.name, e))
    cf = work.path(h.name + '.c'); open(cf, 'w').write(code)
    mf = work.path(h.name + '_main.c')
    if h.threads: write_seq_main(mf, h)
    else: write_main(mf, h.entry)
    return cf, mf, g

def run_aharness(work, h, ev, witness=True):
    """returns (verdict, cbmc result, generator). verdict in discharged/failed/inconclusive"""
    cf, mf, g = translate_harness(work, h)
    files = [cf, mf] + [os.path.join(VERIF, 'harness', x) for x in h.extra_c]
    res = run_cbmc(files, unwind=h.unwind, unwindset=h.unwindset, flags=h.flags, extra=h.extra, timeout=h.timeout, mem_gb=h.mem_gb, backend=h.backend)
    wres = None
    if witness and res.status == 'success':
        wres = run_cbmc(files, unwind=h.unwind, unwindset=h.unwindset, flags=[f for f in (CBMC_FLAGS if h.flags is None else h.flags) if f != '--unwinding-assertions'], extra=h.extra,
                        timeout=h.timeout, mem_gb=h.mem_gb, defs=['WITNESS'], prop='main.assertion.1', trace=False, backend=h.backend)
    return res, wres, g

def nondet_file(work, name, words):
    p = work.path(name + '.replay.txt')
    open(p, 'w').write('\n'.join('%016x' % w for w in words) + '\n')
    return p

def native_replay(work, h, words, tag='cex'):
    """run the harness TU, compiled natively from the REAL sources, on the solver's nondet values.
    returns 'reproduced' / 'not-reproduced' / 'assume-violated' """
    exe = work.path(h.name + '_native')
    if not os.path.exists(exe):
        drv = work.path(h.name + '_drv.cpp')
        open(drv, 'w').write('#include "%s"\nint main(){ %s(); return 0; }\n' % (os.path.join(VERIF, 'harness', h.src), h.entry))
        native_build(drv, exe, defs=h.defs, pre_inc=h.pre_inc, objs=[native_rt_obj(work)], opt='-O1', extra=list(h.cflags), std=h.std)
    rf = nondet_file(work, h.name + '_' + tag, words)
    env = dict(os.environ); env['VERIF_REPLAY'] = rf
    rc, out, err, dt, to = sh([exe], timeout=120, env=env)
    if rc == 1 and 'CHECK-FAILED' in out: return 'reproduced', out
    if rc == 3: return 'assume-violated', out
    if rc == 0: return 'not-reproduced', out
    if rc < 0 or rc > 3: return 'reproduced', out + '\n[crashed rc=%d]' % rc   # crash of the real code on the model's input
    return 'not-reproduced', out

def run_engine_a(pid, tier, harnesses, ev, work, known_match=None, workers=None, custom_replay=None):
    """Runs all harnesses of the tier in parallel. Returns list of violation replay paths; raises Broken."""
    hs = [h for h in harnesses if tier in h.tiers]
    workers = workers or min(len(hs), max(1, (os.cpu_count() or 4) // 2)) or 1
    # lowering (clang) up front, distinct configurations in parallel
    seen_k = {}; 
    for h in hs: seen_k.setdefault((h.src, tuple(h.defs), h.noinline, h.inline_all, tuple(h.pre_inc), tuple(h.cflags), h.std), h)
    with ThreadPoolExecutor(min(12, max(1, len(seen_k)))) as ex0:
        errs = list(ex0.map(lambda hh: (lower(work, hh), None)[1] if True else None, seen_k.values()))
    def one(h):
        try: return h, run_aharness(work, h, ev, witness=h.witness), None
        except Broken as b: return h, None, b
    with ThreadPoolExecutor(workers) as ex: results = list(ex.map(one, hs))
    violations = []; broken = []
    for h, r, b in results:
        if b: broken.append(str(b)); continue
        res, wres, g = r
        ev.functions.update(f[1:] for f in g.functions)
        for k, v in (h.redirect or {}).items(): ev.stubs.append('%s: %s -> %s' % (h.name, k[1:], v[1:]))
        for a in h.allow_ext: ev.stubs.append('%s: %s left nondeterministic' % (h.name, a[1:]))
        ev.peak_rss_mb = max(ev.peak_rss_mb, res.rss_mb)
        ev.bounds[h.name] = {'unwind': h.unwind, 'unwindset': h.unwindset, 'stated': h.bound}
        base = {'cbmc_properties': res.nprops, 'sat_variables': res.sat_vars, 'sat_clauses': res.sat_clauses, 'ssa_steps': res.steps, 'vccs': res.vccs, 'vccs_after_simplification': res.vccs_remaining, 'wall_s': round(res.time, 1), 'rss_mb': res.rss_mb}
        if res.status == 'success':
            wok = (wres is not None and wres.status == 'failed') or not h.witness
            ev.witnesses[h.name] = ('reachable' if h.witness else 'not run (same harness code as a sibling configuration whose witness ran)') if wok else ('UNREACHABLE' if wres is not None and wres.status == 'success' else 'inconclusive:%s' % (wres.status if wres else None))
            if not wok:
                ev.add(h.name, h.what, h.bound, 'inconclusive', res.solver_s, extra=base)
                broken.append('%s: witness twin not reachable (%s) - harness vacuous or over budget' % (h.name, ev.witnesses[h.name]))
            else:
                ev.add(h.name, h.what, h.bound, 'discharged', res.solver_s + (wres.solver_s if wres else 0), nontrivial=max(res.vccs_remaining, 1), extra=base)
        elif res.status == 'failed':
            unw, povf, other = classify_failures(res)
            if unw and not other:
                ev.add(h.name, h.what, h.bound, 'inconclusive', res.solver_s, extra=base); broken.append('%s: unwinding assertion failed (bound too small): %s' % (h.name, unw[:3]))
            elif other:
                oth = set(f[0] for f in other)
                cands = [ws for (tp, ws) in res.traces if tp in oth] or [res.nondet]
                words = cands[0]
                payload = {'property': pid, 'harness': h.name, 'entry': h.entry, 'src': h.src, 'what': h.what, 'bound': h.bound, 'failed': other[:10],
                           'nondet_words': ['%016x' % w for w in words], 'defs': list(h.defs)}
                verdict = 'candidate'
                cr = custom_replay(h, res, words, payload) if custom_replay else None
                if cr is not None:
                    verdict = cr; ev.replays += 1
                elif h.native_replay and not h.redirect:
                    try:
                        for k, ws in enumerate(cands[:8]):
                            verdict, out = native_replay(work, h, ws, tag='cex%d' % k); ev.replays += 1
                            if verdict == 'reproduced': words = ws; payload['nondet_words'] = ['%016x' % w for w in ws]; break
                        payload['native_output'] = out[-2000:]
                    except Broken as b2:
                        verdict = 'replay-build-failed'; payload['native_output'] = str(b2)[-2000:]
                else:
                    verdict = 'reproduced-in-translation'   # harness with stubs: the counterexample is cbmc's trace over the translated real code
                payload['replay_verdict'] = verdict
                km = known_match(h, res, payload) if known_match else None
                if km:
                    ev.known_hits.append(km); ev.add(h.name, h.what, h.bound, 'known-finding', res.solver_s, extra=base)
                elif verdict in ('reproduced', 'reproduced-in-translation'):
                    path = save_replay(pid, h.name, payload); violations.append(path)
                    ev.add(h.name, h.what, h.bound, 'violated', res.solver_s, extra=base)
                else:
                    ev.add(h.name, h.what, h.bound, 'inconclusive', res.solver_s, extra=dict(base, note='counterexample did not reproduce natively: ' + verdict))
                    ev.notes.append('%s: cbmc counterexample not reproduced natively (%s) - recorded as inconclusive, no alarm' % (h.name, verdict))
                    save_replay(pid, h.name + '-unreproduced', payload)
            else:
                ev.notes.append('%s: only pointer-overflow checks failed (%d) - reported separately, never an alarm' % (h.name, len(povf)))
                ev.add(h.name, h.what, h.bound, 'discharged', res.solver_s, nontrivial=max(res.vccs_remaining, 1), extra=dict(base, pointer_overflow_only=len(povf)))
        else:
            ev.add(h.name, h.what, h.bound, res.status, res.solver_s, extra=base)
            broken.append('%s: cbmc %s after %.0fs (%d MB)\n%s' % (h.name, res.status, res.time, res.rss_mb, (res.err or '')[-500:] + res.out[-500:] if res.status == 'error' else ''))
    return violations, broken

# ------------------------------------------------------------------ translation validation
def tv_run(work, h_src, tv_funcs, ev, defs=(), nvec=300, pre_inc=(), noinline=False, inline_all=False, std='c++11', cflags=(), redirect=None):
    """tv_funcs: list of (name, n_in_words). Each is `extern "C" uint64_t name(const uint64_t *in)` in the harness TU.
    Compiles (a) the IR->C translation with gcc and (b) the harness TU itself with g++ from the real sources, runs both on the same
    pseudo-random word vectors (VERIF_SEED) and requires bit-identical results."""
    import random
    rnd = random.Random(ev.seed * 7919 + 13)
    class H: pass
    h = H(); h.src = h_src; h.defs = defs; h.noinline = noinline; h.inline_all = inline_all; h.pre_inc = pre_inc; h.cflags = cflags; h.std = std
    ll = lower(work, h)
    try: code, g = irc.translate(ll, ['@' + n for n, _ in tv_funcs], redirect=redirect)
    except irc.Unencodable as e: raise Broken('tv: %s' % e)
    base = os.path.basename(h_src).replace('.cpp', '')
    cf = work.path('tv_%s.c' % base); open(cf, 'w').write(code)
    drv = work.path('tv_%s_drv.c' % base)
    body = ['#include <stdint.h>', '#include <stdio.h>', '#include <stdlib.h>']
    for n, k in tv_funcs: body.append('uint64_t %s(const uint64_t *in);' % n)
    body.append('int main(int argc, char **argv){ FILE *f = fopen(argv[1], "r"); char nm[128]; int k; while (fscanf(f, "%127s %d", nm, &k) == 2) { uint64_t in[64]; for (int i = 0; i < k; i++) { unsigned long long w; if (fscanf(f, "%llx", &w) != 1) return 9; in[i] = w; } uint64_t r = 0;')
    for n, k in tv_funcs: body.append('  if (!strcmp(nm, "%s")) r = %s(in);' % (n, n))
    body.append('  printf("%s %016llx\\n", nm, (unsigned long long)r); } return 0; }')
    open(drv, 'w').write('#include <string.h>\n' + '\n'.join(body))
    rt = native_rt_obj(work)
    e1 = work.path('tv_%s_trans' % base); e2 = work.path('tv_%s_real' % base)
    rc, o, e, _, _ = sh(['gcc', '-O1', '-w', '-I', os.path.join(VERIF, 'env'), '-fno-strict-aliasing', '-ffp-contract=off', cf, drv, rt, '-lm', '-o', e1], timeout=300)
    if rc: raise Broken('tv: gcc on translated C failed: ' + e[-2000:])
    drvo = work.path('tv_%s_drv.o' % base)
    rc, o, e, _, _ = sh(['gcc', '-O1', '-w', '-c', drv, '-o', drvo])
    native_build(os.path.join(VERIF, 'harness', h_src), e2, defs=defs, pre_inc=pre_inc, objs=[drvo, rt], extra=list(cflags), std=std)
    vec = work.path('tv_%s_vec.txt' % base)
    special = [0, 1, 2, 3, 26, 27, 63, 64, 0x7ff0000000000000, 0x3ff0000000000000, 0xbff0000000000000, 0x8000000000000000, 0xffffffffffffffff, 0x4000000000000000, 0x3fe0000000000000, 0x0010000000000000]
    with open(vec, 'w') as f:
        for n, k in tv_funcs:
            for j in range(nvec):
                ws = []
                for i in range(k):
                    c = rnd.random()
                    if c < 0.3: ws.append(rnd.choice(special))
                    elif c < 0.6: ws.append(rnd.randrange(0, 64))
                    elif c < 0.8: ws.append(struct.unpack('<Q', struct.pack('<d', rnd.uniform(-4, 4)))[0])
                    else: ws.append(rnd.getrandbits(64))
                f.write('%s %d %s\n' % (n, k, ' '.join('%x' % w for w in ws)))
    r1 = sh([e1, vec], timeout=120); r2 = sh([e2, vec], timeout=120)
    ev.tv['programs'] += len(tv_funcs); ev.tv['vectors'] += nvec * len(tv_funcs)
    if r1[0] != 0 or r2[0] != 0: raise Broken('tv: driver crashed rc=%s/%s' % (r1[0], r2[0]))
    if r1[1] != r2[1]:
        l1 = r1[1].split('\n'); l2 = r2[1].split('\n'); mm = [(a, b) for a, b in zip(l1, l2) if a != b]
        ev.tv['mismatches'] += len(mm)
        raise Broken('translation validation mismatch (translated C vs real code), first: %r' % (mm[:3],))
    return True

# ------------------------------------------------------------------ Engine B harness runner
_B_HS = []
class BHarness:
    """one symbolic-execution harness: entry `entry` (void(void), nondet_* inputs, __CPROVER_assume, __verif_check) in TU `src`"""
    def __init__(s, name, src, entry, defs=(), noinline=False, inline_all=False, tie_free=False, monotone=False, exact_add=False, stubs=None, maxpaths=20000, maxsteps=400000,
                 timeout=900, solver_timeout_ms=60000, what='', bound='', pre_inc=(), cflags=(), tiers=('quick', 'thorough'), std='c++11', min_paths=1, extra_exclusions=(), allow_error=False,
                 native_replay=True, post=None, split=1, log_stores=False, strict=False, real_model=False, perturb=True):
        s.__dict__.update(locals()); del s.__dict__['s']; s.redirect = None

def _b_worker(args):
    import irz, z3, random
    ll, hidx, initial_work, seeding = args[:4]; force_real = len(args) > 4 and args[4]
    h = _B_HS[hidx]            # harness objects (with hooks/closures) are inherited through fork, never pickled
    t0 = time.time()
    out = {'name': h.name, 'paths': 0, 'obl': 0, 'discharged': 0, 'unknown': 0, 'candidates': [], 'aborted': 0, 'loopbound': 0, 'queries': 0, 'solver_s': 0.0, 'samples': [],
           'ties_excluded': 0, 'side_conditions': {}, 'functions': [], 'error': None, 'errors_reached': 0, 'tiny_sites': 0, 'exact_obl': 0}
    try:
        m = ir.parse_module(ll)
        funcs = set()
        def on_path(E, ret, status):
            if status == 'loopbound': out['loopbound'] += 1; return
            if status.startswith('abort'): out['aborted'] += 1
            else: out['paths'] += 1
            funcs.update(E.calls)
            out['ties_excluded'] += len(E.fp.ties or [])
            out['tiny_sites'] += len(E.fp.tiny_sites)
            for sc in E.fp.side: out['side_conditions'][sc[0]] = out['side_conditions'].get(sc[0], 0) + 1
            if E.errors and not h.allow_error: E.obligations.append(('cmac_error not reachable', False))
            out['errors_reached'] += E.errors
            # A7 side conditions: every exact addition must be representable (checked by the harness-specific post hook)
            if not force_real:
                for c in getattr(E.fp, 'div_obl', []): E.obligations.append(('denominator non-zero (finite result)', c))
            if h.post: h.post(E, out)
            extra = None
            if E.fp.tiny_sites:
                BIG = irz.RV(Fraction(1, 2**940))
                extra = z3.And([(z3.Or(x >= BIG, x <= -BIG) if irz.contains_uf(x) else z3.Or(x == 0, x >= BIG, x <= -BIG)) for x in E.fp.tiny_sites])   # stated exclusion: quantities guarded by +DBL_MIN are not within 2^-940 of zero (inputs may be exactly zero)
            res = getattr(E, 'sealed', []) + irz.check_obligations(E, extra)
            for (name, verdict, mdl, dt) in res:
                out['obl'] += 1; out['solver_s'] += dt
                if verdict == 'discharged': out['discharged'] += 1
                elif verdict == 'unknown': out['unknown'] += 1
                else:
                    ws = irz.model_words(E, mdl) if mdl is not None else []
                    if len(out['candidates']) < 40: out['candidates'].append({'obligation': name, 'words': ws, 'kinds': [k for _, k, _ in E.nondet], 'decisions': list(E.decisions)})
                if len(out['samples']) < 6: out['samples'].append({'path_decisions': ''.join('T' if d else 'F' for d in E.decisions)[:80], 'obligation': name, 'verdict': verdict, 'solver_s': round(dt, 4)})
        from fractions import Fraction
        st = irz.explore(m, '@' + h.entry, lambda: (irz.RealFP(abs_uf=getattr(h, 'abs_uf', False)) if (h.real_model or force_real) else irz.SymFP(monotone=h.monotone, exact_add=h.exact_add, strict=h.strict)), on_path=on_path, tie_free=h.tie_free, stubs=h.stubs,
                         maxpaths=h.maxpaths, maxsteps=h.maxsteps, timeout=h.timeout, solver_timeout_ms=h.solver_timeout_ms,
                         initial_work=initial_work, stop_when_pending=(h.split * 6 if seeding else None), log_stores=h.log_stores)
        out['queries'] = st['queries'] + out['obl']; out['infeasible'] = st['infeasible']; out['remaining'] = st['remaining']
        out['functions'] = sorted(funcs)
    except Exception as e:
        import traceback
        out['error'] = '%s: %s\n%s' % (type(e).__name__, e, traceback.format_exc()[-1500:])
    out['wall'] = time.time() - t0
    return out

def perturb_words(words, kinds, rnd, k):
    """randomised concretisations around a solver model (confirmation replays only; the verdict stays the solver's)"""
    ws = list(words)
    for j, kd in enumerate(kinds):
        if kd != 'd' or j >= len(ws): continue
        d = struct.unpack('<d', struct.pack('<Q', ws[j]))[0]
        if k == 0: continue
        if k >= 12:
            # free search phase: physically plausible magnitudes, keeping exact zeros of the model (vacuum etc.) most of the time
            zkeep = 0.8 if (k % 2 == 0) else 0.15      # alternate: keep the model's exact zeros (vacuum etc.) / treat them as free
            if d == 0 and rnd.random() < zkeep: nd = 0.0
            elif d != 0 and rnd.random() < 0.25: nd = d
            else: nd = 10 ** rnd.uniform(-2, 2) * (rnd.choice([1, 1, -1]) if d >= 0 else rnd.choice([-1, -1, 1]))
        elif d == 0: nd = 0.0 if rnd.random() < 0.5 else rnd.choice([1e-3, 0.1, 0.5, 1., 2.5, 10.]) * rnd.choice([1, -1])
        else: nd = d * rnd.choice([1., 1., 0.5, 2., 1.1, 0.9, 1e-2, 1e2, 0.37, 3.3])
        ws[j] = struct.unpack('<Q', struct.pack('<d', nd))[0]
    return ws

def run_engine_b(pid, tier, harnesses, ev, work, known_match=None, custom_replay=None, workers=None):
    import multiprocessing as mp, random
    hs = [h for h in harnesses if tier in h.tiers]
    if not hs: return [], []
    lls = [lower(work, h) for h in hs]
    workers = workers or min(max(len(hs), max(h.split for h in hs) * 2), os.cpu_count() or 4)
    ctx = mp.get_context('fork')
    global _B_HS
    _B_HS = hs
    def run_tasks(tasks):
        """own scheduler: one forked process per task, at most `workers` alive, each with a HARD wall-clock limit
        (z3 can ignore its own timeouts inside preprocessing); a killed task yields an error record, never a hang"""
        results = [None] * len(tasks); pending = list(range(len(tasks))); running = {}
        def child(conn, args):
            try: conn.send(_b_worker(args))
            except Exception as e: conn.send({'error': 'worker crashed: %r' % (e,)})
            conn.close()
        while pending or running:
            while pending and len(running) < workers:
                k = pending.pop(0); pc, cc = ctx.Pipe(duplex=False)
                p = ctx.Process(target=child, args=(cc, tasks[k])); p.start(); cc.close()
                running[k] = (p, pc, time.time() + _B_HS[tasks[k][1]].timeout + 120)
            done = []
            for k, (p, pc, dl) in running.items():
                if pc.poll(0.05):
                    try: results[k] = pc.recv()
                    except EOFError: results[k] = {'error': 'worker died'}
                    p.join(5); done.append(k)
                elif not p.is_alive(): results[k] = {'error': 'worker died (exit code %s)' % p.exitcode}; done.append(k)
                elif time.time() > dl:
                    p.kill(); p.join(5); results[k] = {'error': 'hard time limit of %ds exceeded (harness killed)' % (_B_HS[tasks[k][1]].timeout + 120)}; done.append(k)
            for k in done: running.pop(k)
        return results
    EMPTY = {'paths': 0, 'obl': 0, 'discharged': 0, 'unknown': 0, 'candidates': [], 'aborted': 0, 'loopbound': 0, 'queries': 0, 'solver_s': 0.0, 'samples': [], 'ties_excluded': 0,
             'side_conditions': {}, 'functions': [], 'errors_reached': 0, 'tiny_sites': 0, 'exact_obl': 0, 'infeasible': 0, 'remaining': [], 'wall': 0}
    def norm(o): d = dict(EMPTY); d.update(o); d.setdefault('error', None); return d
    if True:
        outs = [norm(o) for o in run_tasks([(ll, k, None, h.split > 1) for k, (ll, h) in enumerate(zip(lls, hs))])]
        # second phase: harnesses whose seeding phase left unexplored prefixes are fanned out
        tasks = []
        for k, (h, o) in enumerate(zip(hs, outs)):
            rem = o.get('remaining') or []
            if rem and not o['error']:
                for j in range(h.split * 6):
                    chunk = rem[j::h.split * 6]
                    if chunk: tasks.append((k, (lls[k], k, chunk, False)))
        if tasks:
            res2 = [norm(o) for o in run_tasks([t for _, t in tasks])]
            for (k, _), o2 in zip(tasks, res2):
                o = outs[k]
                for key in ('paths', 'obl', 'discharged', 'unknown', 'aborted', 'loopbound', 'queries', 'solver_s', 'ties_excluded', 'errors_reached', 'tiny_sites', 'infeasible'):
                    o[key] = o.get(key, 0) + o2.get(key, 0)
                o['candidates'] += o2['candidates']; o['functions'] = sorted(set(o['functions']) | set(o2['functions']))
                for sk, sv in o2['side_conditions'].items(): o['side_conditions'][sk] = o['side_conditions'].get(sk, 0) + sv
                if o2['error'] and not o['error']: o['error'] = o2['error']
                o['samples'] = (o['samples'] + o2['samples'])[:8]
    violations = []; broken = []
    rnd = random.Random(ev.seed + 17)
    for h, o in zip(hs, outs):
        ev.functions.update(f[1:] for f in o['functions']); ev.functions.add(h.entry)
        ev.bounds[h.name] = {'stated': h.bound, 'maxpaths': h.maxpaths, 'maxsteps': h.maxsteps}
        base = {'paths': o['paths'], 'aborted_paths': o['aborted'], 'path_obligations': o['obl'], 'path_obligations_discharged': o['discharged'], 'solver_queries': o['queries'],
                'ties_excluded': o['ties_excluded'], 'side_conditions': o['side_conditions'], 'wall_s': round(o.get('wall', 0), 1), 'path_samples': o['samples']}
        if o['error']:
            ev.add(h.name, h.what, h.bound, 'inconclusive', o['solver_s'], extra=base); broken.append('%s: %s' % (h.name, o['error'])); continue
        if o['loopbound']:
            ev.add(h.name, h.what, h.bound, 'inconclusive', o['solver_s'], extra=base); broken.append('%s: %d path(s) hit the step bound (unwinding obligation failed)' % (h.name, o['loopbound'])); continue
        if (o['paths'] < h.min_paths or o['obl'] == 0) and not o['candidates']:
            ev.witnesses[h.name] = 'UNREACHABLE'
            ev.add(h.name, h.what, h.bound, 'inconclusive', o['solver_s'], extra=base); broken.append('%s: vacuous (paths=%d obligations=%d)' % (h.name, o['paths'], o['obl'])); continue
        ev.witnesses[h.name] = 'reachable: %d complete paths' % o['paths']
        if o['unknown']:
            ev.notes.append('%s: %d obligation(s) unknown (solver timeout)' % (h.name, o['unknown']))
        if not o['candidates'] and not o['unknown']:
            ev.add(h.name, h.what, h.bound, 'discharged', o['solver_s'], nontrivial=o['discharged'], extra=base); continue
        if not o['candidates'] and o['unknown']:
            ev.add(h.name, h.what, h.bound, 'inconclusive', o['solver_s'], extra=base); broken.append('%s: %d obligations undecided (solver timeout)' % (h.name, o['unknown'])); continue
        # candidates: replay against the natively compiled real code
        reproduced = None; tried = 0; kf = None
        # pass 1: the exact solver model of EVERY candidate (cheap), before any budget is spent on perturbations of the first few
        if h.native_replay and not custom_replay:
            for c in o['candidates'][:400]:
                if not c['words']: continue
                try: verdict, outp = native_replay(work, h, c['words'], tag='e%d' % tried)
                except Broken as b2: broken.append('%s: replay build failed: %s' % (h.name, b2)); break
                ev.replays += 1; tried += 1
                if verdict == 'reproduced':
                    reproduced = {'property': pid, 'harness': h.name, 'entry': h.entry, 'src': h.src, 'what': h.what, 'bound': h.bound, 'obligation': c['obligation'],
                                  'nondet_words': ['%016x' % w for w in c['words']], 'defs': list(h.defs), 'engine': 'B', 'native_output': outp[-1000:], 'replay_verdict': 'reproduced'}
                    break
            tried = 0
        for c in (o['candidates'] if not reproduced else []):
            payload = {'property': pid, 'harness': h.name, 'entry': h.entry, 'src': h.src, 'what': h.what, 'bound': h.bound, 'obligation': c['obligation'],
                       'nondet_words': ['%016x' % w for w in c['words']], 'defs': list(h.defs), 'engine': 'B'}
            if custom_replay:
                v = custom_replay(h, c, payload)
                if v is not None:
                    ev.replays += 1; tried += 1
                    if v == 'reproduced': reproduced = payload; break
                    continue
            if not h.native_replay: continue
            if tried >= (1500 if tier == 'quick' else 6000): break     # replay budget per harness
            for k in range((500 if tier == 'quick' else 1500) if h.perturb else 1):
                ws = perturb_words(c['words'], c['kinds'], rnd, k)
                try: verdict, outp = native_replay(work, h, ws, tag='b%d' % tried)
                except Broken as b2: broken.append('%s: replay build failed: %s' % (h.name, b2)); verdict = 'x'; break
                ev.replays += 1; tried += 1
                if verdict == 'reproduced':
                    payload['nondet_words'] = ['%016x' % w for w in ws]; payload['native_output'] = outp[-1000:]; payload['replay_verdict'] = 'reproduced'; reproduced = payload; break
            if reproduced: break
        if not reproduced and h.native_replay and not custom_replay and not h.real_model and not h.exact_add and o['candidates']:
            # second chance: the IEEE-UF models did not replay (uninterpreted rounded values need not be realisable).  Generate candidates for the
            # SAME harness in the real-arithmetic reading (exact operations): such models are realisable up to rounding and usually drive the
            # native run down the same path.  Only natively reproduced ones count, as before.
            t2 = time.time(); o2 = norm(run_tasks([(lls[hs.index(h)], hs.index(h), None, False, True)])[0])
            ev.notes.append('%s: second-chance real-model pass: %d candidates in %.0fs%s' % (h.name, len(o2['candidates']), time.time() - t2, (' (error: %s)' % o2['error'][:80]) if o2['error'] else ''))
            for c in o2['candidates'][:200]:
                if not c['words']: continue
                for k in range(4):
                    ws = c['words'] if k == 0 else perturb_words(c['words'], c['kinds'], rnd, k)
                    try: verdict, outp = native_replay(work, h, ws, tag='r%d' % tried)
                    except Broken as b2: broken.append('%s: replay build failed: %s' % (h.name, b2)); verdict = 'x'; break
                    ev.replays += 1; tried += 1
                    if verdict == 'reproduced':
                        reproduced = {'property': pid, 'harness': h.name, 'entry': h.entry, 'src': h.src, 'what': h.what, 'bound': h.bound, 'obligation': c['obligation'],
                                      'nondet_words': ['%016x' % w for w in ws], 'defs': list(h.defs), 'engine': 'B (candidate from the real-model pass)', 'native_output': outp[-1000:], 'replay_verdict': 'reproduced'}
                        break
                if reproduced: break
        if reproduced:
            km = known_match(h, None, reproduced) if known_match else None
            if km: ev.known_hits.append(km); ev.add(h.name, h.what, h.bound, 'known-finding', o['solver_s'], extra=base)
            else:
                path = save_replay(pid, h.name, reproduced); violations.append(path); ev.add(h.name, h.what, h.bound, 'violated', o['solver_s'], extra=base)
        else:
            ev.add(h.name, h.what, h.bound, 'inconclusive', o['solver_s'], extra=dict(base, candidates=len(o['candidates']), note='solver candidates did not reproduce natively in %d replays (abstraction too coarse for this query): no alarm' % tried))
            ev.notes.append('%s: %d candidate(s) (first obligation: %s) not reproduced natively - inconclusive, no alarm' % (h.name, len(o['candidates']), o['candidates'][0]['obligation']))
            if os.environ.get('VERIF_STRICT'): broken.append('%s: %d undischarged candidates: %s' % (h.name, len(o['candidates']), [c['obligation'] for c in o['candidates'][:5]]))
    return violations, broken

def tv_run_b(work, h_src, tv_funcs, ev, defs=(), nvec=60, pre_inc=(), noinline=False, inline_all=False, std='c++11', cflags=()):
    """Engine-B translation validation: the interpreter in concrete mode (python floats) against the g++ build of the same wrappers"""
    import random, irz
    rnd = random.Random(ev.seed * 31 + 5)
    class H: pass
    h = H(); h.src = h_src; h.defs = defs; h.noinline = noinline; h.inline_all = inline_all; h.pre_inc = pre_inc; h.cflags = cflags; h.std = std
    ll = lower(work, h); m = ir.parse_module(ll)
    base = os.path.basename(h_src).replace('.cpp', '')
    drv = work.path('tvb_%s_drv.c' % base)
    body = ['#include <stdint.h>', '#include <stdio.h>', '#include <stdlib.h>', '#include <string.h>']
    for n, k in tv_funcs: body.append('uint64_t %s(const uint64_t *in);' % n)
    body.append('int main(int argc, char **argv){ FILE *f = fopen(argv[1], "r"); char nm[128]; int k; while (fscanf(f, "%127s %d", nm, &k) == 2) { uint64_t in[64]; for (int i = 0; i < k; i++) { unsigned long long w; if (fscanf(f, "%llx", &w) != 1) return 9; in[i] = w; } uint64_t r = 0;')
    for n, k in tv_funcs: body.append('  if (!strcmp(nm, "%s")) r = %s(in);' % (n, n))
    body.append('  printf("%s %016llx\\n", nm, (unsigned long long)r); } return 0; }')
    open(drv, 'w').write('\n'.join(body))
    drvo = work.path('tvb_%s_drv.o' % base); sh(['gcc', '-O1', '-w', '-c', drv, '-o', drvo])
    exe = work.path('tvb_%s_real' % base)
    native_build(os.path.join(VERIF, 'harness', h_src), exe, defs=defs, pre_inc=pre_inc, objs=[drvo, native_rt_obj(work)], extra=list(cflags), std=std)
    vec = work.path('tvb_%s_vec.txt' % base); cases = []
    with open(vec, 'w') as f:
        for n, k in tv_funcs:
            for j in range(nvec):
                ws = []
                for i in range(k):
                    c = rnd.random()
                    if c < 0.15: ws.append(struct.unpack('<Q', struct.pack('<d', rnd.choice([0.0, 1.0, -1.0, 0.5, 2.0])))[0])
                    elif c < 0.75: ws.append(struct.unpack('<Q', struct.pack('<d', rnd.uniform(0.01, 4) * rnd.choice([1, 1, -1])))[0])
                    elif c < 0.9: ws.append(struct.unpack('<Q', struct.pack('<d', 10 ** rnd.uniform(-6, 6)))[0])
                    else: ws.append(rnd.randrange(0, 64))
                cases.append((n, ws)); f.write('%s %d %s\n' % (n, k, ' '.join('%x' % w for w in ws)))
    rc, out, err, _, _ = sh([exe, vec], timeout=120)
    if rc: raise Broken('tv-b: native driver failed rc=%d %s' % (rc, err[-300:]))
    native = [l.split() for l in out.strip().split('\n')]
    mism = []
    for (n, ws), nat in zip(cases, native):
        fp = irz.ConcFP(); E = irz.Exec(m, fp, None, nondet_values=[]); E.branch = lambda c: bool(c)
        arr = E.alloc(8 * len(ws))
        for k, w in enumerate(ws): E.mem[arr[0]]['cells'][8 * k] = (w, 8)
        try: r = irz.run_function(E, '@' + n, [arr])
        except irz.Abort: r = None
        except irz.Unsupported as e: raise Broken('tv-b: interpreter cannot run %s: %s' % (n, e))
        if isinstance(r, bool): r = int(r)
        got = '%016x' % ((r or 0) & (2**64 - 1))
        if got != nat[1]: mism.append((n, ['%x' % w for w in ws], got, nat[1]))
    ev.tv['programs'] += len(tv_funcs); ev.tv['vectors'] += len(cases)
    if mism:
        ev.tv['mismatches'] += len(mism); raise Broken('Engine-B translation validation mismatch (interpreter vs real code): %r' % (mism[:2],))
    return True

def generic_replay(path, harnesses):
    """./check <ID> --replay <file>: re-run a stored counterexample against the natively compiled real code"""
    d = json.load(open(path)); work = Work(d['property'] + '_replay')
    hs = [h for h in harnesses if h.name == d['harness']]
    if not hs:
        hs = [AHarness(d['harness'], d['src'], d['entry'], defs=tuple(d.get('defs', ())))]
    h = hs[0]; words = [int(w, 16) for w in d.get('nondet_words', [])]
    verdict, out = native_replay(work, h, words); work.clean()
    print('replay of %s on the real code: %s\n%s' % (d['harness'], verdict, out[-500:]))
    return 1 if verdict == 'reproduced' else 0
