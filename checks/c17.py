import os, sys
from vlib import *

# ---- Engine-B stubs: big integers as z3 Int terms, with an interval bound proved op by op (E3)
def _bound_lemma(E, op, A, B, R):
    """z3 proves the local magnitude lemma: |a|<=A and |b|<=B  =>  |a op b| <= R   (fresh a,b)"""
    import z3
    key = (op, A, B, R); cache = E.__dict__.setdefault('lemma_cache', {})
    if key in cache: return cache[key]
    a, b = z3.Ints('la lb'); s = z3.Solver(); s.set('timeout', 20000)
    t = {'add': a + b, 'sub': a - b, 'mul': a * b}[op]
    s.add(a <= A, a >= -A, b <= B, b >= -B, z3.Or(t > R, t < -R))
    r = s.check(); cache[key] = (r == z3.unsat); E.lemmas = getattr(E, 'lemmas', 0) + 1
    return cache[key]
def _mk(E, term, bound):
    E.bi_bounds = getattr(E, 'bi_bounds', {}); E.bi_keep = getattr(E, 'bi_keep', []); E.bi_keep.append(term)
    E.bi_bounds[term.get_id()] = bound; E.bi_max = max(getattr(E, 'bi_max', 0), bound); return term
def _bd(E, t): return getattr(E, 'bi_bounds', {}).get(t.get_id(), None)
def bi_from(E, av):
    import z3
    v = av[0]
    if isinstance(v, int): return _mk(E, z3.IntVal(v if v < 2**63 else v - 2**64), abs(v if v < 2**63 else v - 2**64))
    return _mk(E, z3.BV2Int(v, is_signed=False), 2**52 - 1)        # mantissas: 52-bit fields (assumed by the get_mantissa hook)
def _bin(op):
    def f(E, av):
        import z3
        a, b = av; A, B = _bd(E, a), _bd(E, b)
        t = {'add': a + b, 'sub': a - b, 'mul': a * b}[op]
        R = A + B if op != 'mul' else A * B
        ok = _bound_lemma(E, op, A, B, R)
        if not ok: E.obligations.append(('E3 local magnitude lemma |a %s b| <= %d' % (op, R), False))
        return _mk(E, t, R)
    return f
_ID_CACHE = {}; _KEEP = []
def _identical(p, q):
    """z3: are the integer polynomials p and q identical (c=1), opposite (c=-1) or neither (None)?  cached per term pair"""
    import z3
    key = (p.get_id(), q.get_id())
    if key in _ID_CACHE: return _ID_CACHE[key]
    _KEEP.extend([p, q]); res = None
    for c in (1, -1):
        s = z3.Solver(); s.set('timeout', 60000)
        s.add(p != c * q)                      # polynomial identity over mathematical integers: unsat <=> identical
        if s.check() == z3.unsat: res = c; break
    _ID_CACHE[key] = res
    return res
def bi_sgn(E, av):
    import z3
    t = av[0]; st = getattr(E, 'sgn_terms', []); k = len(st); sg = z3.BitVec('sg%d' % k, 32)
    E.assume(z3.Or(sg == 1, sg == 0, sg == 0xffffffff))
    for (sg0, t0) in st:
        c = _identical(t0, t)
        if c is not None:
            E.assume(sg == (sg0 if c == 1 else -sg0)); E.n_links = getattr(E, 'n_links', 0) + 1   # sign link justified by the proved identity
            break
    E.sgn_terms = st + [(sg, t)]
    return sg
def hook_mantissa(E, nm, av):
    import z3
    x = av[0]; memo = E.__dict__.setdefault('mant_memo', {})
    if x.get_id() not in memo:
        m = z3.BitVec('mant%d' % len(memo), 64); E.assume(z3.ULT(m, 2**52)); memo[x.get_id()] = (m, x)
    return memo[x.get_id()][0]
STUBS = {'@__bi_from_u64': bi_from, '@__bi_add': _bin('add'), '@__bi_sub': _bin('sub'), '@__bi_mul': _bin('mul'), '@__bi_sgn': bi_sgn, '~get_mantissa': hook_mantissa}

def post_links(E, out):
    """decide with z3 which recorded big-integer results are polynomially identical up to sign, and link their sign symbols;
    E3: every intermediate fits the integer type's width"""
    import z3
    st = getattr(E, 'sgn_terms', [])
    width = E.width_bits
    mx = getattr(E, 'bi_max', 0)
    E.obligations.append(('E3 width sufficiency: every intermediate |t| <= %d bits < %d-bit type (max proved bound 2^%d)' % (mx.bit_length(), width, mx.bit_length()), mx < 2**(width - 1)))
    out['side_conditions']['sign links from polynomial identities proved by z3 (NIA)'] = out['side_conditions'].get('sign links from polynomial identities proved by z3 (NIA)', 0) + getattr(E, 'n_links', 0)

def mk_post(width):
    def f(E, out): E.width_bits = width; post_links(E, out)
    return f
post256 = mk_post(256); post278 = mk_post(278)

def harnesses(tier):
    inc = [os.path.join(VERIF, 'env', 'mboost')]
    H = []
    H.append(BHarness('E1_orient', 'c17_eg.cpp', 'h_e1_orient', defs=['ORIENT_SIGN=%s' % os.environ.get('ORIENT_SIGN', '1'), 'INSPHERE_SIGN=1'], pre_inc=inc, stubs=STUBS, post=post256, timeout=900, noinline=True, native_replay=False,
        what='orient3d_exact returns the sign of the exact 4x4 orientation determinant of the mantissas (polynomial identity decided by z3 over mathematical integers), flips under each transposition of arguments and is invariant under even permutations; E3: all intermediates fit 256 bits',
        bound='12 mantissas symbolic in [0,2^52); loop-free; get_mantissa replaced by a 52-bit symbol per coordinate (its correctness is E2)'))
    H.append(BHarness('E1_insphere', 'c17_eg.cpp', 'h_e1_insphere', defs=['ORIENT_SIGN=1', 'INSPHERE_SIGN=%s' % os.environ.get('INSPHERE_SIGN', '1')], pre_inc=inc, stubs=STUBS, post=post278, timeout=1500, noinline=True, native_replay=False,
        what='insphere_exact returns the sign of the exact in-sphere determinant (rows p-e, |p-e|^2), flips under transpositions, invariant under 3-cycles; E3: all intermediates fit the 278-bit type',
        bound='15 mantissas symbolic in [0,2^52); loop-free'))
    H.append(BHarness('E4_orient_filter', 'c17_eg.cpp', 'h_e4_orient_filter', defs=['ORIENT_SIGN=1', 'INSPHERE_SIGN=1'], pre_inc=inc, stubs=STUBS, post=post256, timeout=900, noinline=True, native_replay=False, real_model=True, perturb=False,
        what='E4 (real-model reading of orient3d_adaptive): whenever the floating-point filter answers by itself instead of returning orient3d_exact of the same four points, the exact determinant of the difference vectors lies on the answered side by at least 7e-16 x permanent (> the forward error bound gamma_5 = 5.6e-16 of any cofactor evaluation of a 3x3 determinant with exact entries, < Shewchuk\'s 7.77e-16): the bound covers every term of the determinant it guards, and the fall-back is the exact predicate on the same arguments in the same order',
        bound='12 coordinates symbolic reals in [1,2); loop-free; exact real arithmetic for the filter (its rounding enters through the stated forward error lemma, not through the solver); big integers as in E1'))
    H[-1].abs_uf = True
    H.append(BHarness('E4_insphere_fallback', 'c17_eg.cpp', 'h_e4_insphere_fallback', defs=['ORIENT_SIGN=1', 'INSPHERE_SIGN=1'], pre_inc=inc, stubs=STUBS, post=post278, timeout=1500, noinline=True, native_replay=False, real_model=True, perturb=False, tiers=('thorough',),
        what='E4\' (real-model reading of insphere_adaptive): the result is insphere_exact of the same five points in the same order, or the filter\'s own answer, which then has the sign of the exact real in-sphere determinant of the differences (degree-5 polynomial identity with the reference written in the harness)',
        bound='15 coordinates symbolic reals (points written as e + difference); loop-free; exact real arithmetic for the filter; big integers as in E1'))
    H[-1].abs_uf = True
    return H

def a_harnesses(tier):
    return [AHarness('E2_mantissa', 'c17_eg.cpp', 'h_e2_mantissa', unwind=2, defs=['ORIENT_SIGN=1', 'INSPHERE_SIGN=1'], pre_inc=[os.path.join(VERIF, 'env', 'mboost')], timeout=900,
                     what='get_mantissa(x) for every binary64 x in [1,2): 52-bit field, equals (x-1)*2^52 exactly, strictly monotone and injective', bound='all binary64 x,y in [1,2); bit-precise; loop-free')]

def run(tier, only=None):
    ev = Evidence('C17', tier); work = Work('C17')
    ev.stubs += ['boost::multiprecision integers -> mathematical integers (z3 Int); width sufficiency is the separate E3 obligation', 'get_mantissa -> one 52-bit symbol per coordinate in E1 (its bit-level meaning is proved in E2)']
    ev.outside += ['E4 filter soundness of the adaptive (floating point) versions: FP error analysis over 9-40 multiplications, nonlinear real arithmetic + rounding; not decided', 'coordinates outside [1,2)']
    try:
        hb = [h for h in harnesses(tier) if not only or h.name.startswith(only)]
        violations, broken = run_engine_b('C17', tier, hb, ev, work)
        ha = [h for h in a_harnesses(tier) if not only or h.name.startswith(only)]
        v2, b2 = run_engine_a('C17', tier, ha, ev, work); violations += v2; broken += b2
    except Broken as b:
        violations, broken = [], [str(b)]
    work.clean()
    finish(ev, violations, '; '.join(broken) if broken else None)

def replay(path): return generic_replay(path, a_harnesses('thorough'))
