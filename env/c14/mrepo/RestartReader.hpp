#pragma once
#include <string>
struct RestartReader { RestartReader(const std::string&){} };
