// C17: the REAL ExactGeometricTests.hpp; big integers are the stub class above (mathematical integers in z3).
#include "ExactGeometricTests.hpp"
extern "C" {
typedef boost::multiprecision::int256_t BI;
static inline CoordinateVector<> pt(void) { double x = nondet_double(), y = nondet_double(), z = nondet_double(); return CoordinateVector<>(x, y, z); }
static inline int sgn(BI v) { return __bi_sgn(v.h); }
struct M3 { BI x, y, z; };
static inline M3 mant(const CoordinateVector<> &p) { M3 m; m.x = BI(ExactGeometricTests::get_mantissa(p.x())); m.y = BI(ExactGeometricTests::get_mantissa(p.y())); m.z = BI(ExactGeometricTests::get_mantissa(p.z())); return m; }
static inline BI det3(BI a, BI b, BI c, BI d, BI e, BI f, BI g, BI h, BI i) { return a * (e * i - f * h) - b * (d * i - f * g) + c * (d * h - e * g); }
// reference orientation determinant: | ax ay az 1 ; bx by bz 1 ; cx cy cz 1 ; dx dy dz 1 | expanded along the last column (no translation)
static inline BI ref_orient(M3 a, M3 b, M3 c, M3 d) {
  return det3(b.x, b.y, b.z, c.x, c.y, c.z, d.x, d.y, d.z) * BI(-1) + det3(a.x, a.y, a.z, c.x, c.y, c.z, d.x, d.y, d.z)
         - det3(a.x, a.y, a.z, b.x, b.y, b.z, d.x, d.y, d.z) + det3(a.x, a.y, a.z, b.x, b.y, b.z, c.x, c.y, c.z);
}
__attribute__((noinline)) void h_e1_orient(void) {
  CoordinateVector<> a = pt(), b = pt(), c = pt(), d = pt();
  int s = ExactGeometricTests::orient3d_exact(a, b, c, d);
  int r = sgn(ref_orient(mant(a), mant(b), mant(c), mant(d)));
  __verif_check(s == ORIENT_SIGN * r);                                 // the predicate IS the sign of the 4x4 orientation determinant
  __verif_check(ExactGeometricTests::orient3d_exact(b, a, c, d) == -s);  // odd permutations flip the sign
  __verif_check(ExactGeometricTests::orient3d_exact(a, c, b, d) == -s);
  __verif_check(ExactGeometricTests::orient3d_exact(a, b, d, c) == -s);
  __verif_check(ExactGeometricTests::orient3d_exact(b, c, a, d) == s);   // even permutations keep it
  __verif_check(ExactGeometricTests::orient3d_exact(b, a, d, c) == s);
}
// reference in-sphere determinant: rows (x, y, z, x^2+y^2+z^2, 1), translated by e only in the reference's own way:
// computed here as sum over the 4 points of +-(|p-e|^2) * orient-type minors written with det3 on differences to e
static inline BI n2(M3 p, M3 e) { BI x = p.x - e.x, y = p.y - e.y, z = p.z - e.z; return x * x + y * y + z * z; }
static inline BI minor(M3 p, M3 q, M3 r, M3 e) { return det3(p.x - e.x, p.y - e.y, p.z - e.z, q.x - e.x, q.y - e.y, q.z - e.z, r.x - e.x, r.y - e.y, r.z - e.z); }
static inline BI ref_insphere(M3 a, M3 b, M3 c, M3 d, M3 e) {
  // 4x4 determinant | p-e , |p-e|^2 | for p = a,b,c,d expanded along the last column
  return n2(d, e) * minor(a, b, c, e) - n2(c, e) * minor(a, b, d, e) + n2(b, e) * minor(a, c, d, e) - n2(a, e) * minor(b, c, d, e);
}
__attribute__((noinline)) void h_e1_insphere(void) {
  CoordinateVector<> a = pt(), b = pt(), c = pt(), d = pt(), e = pt();
  int s = ExactGeometricTests::insphere_exact(a, b, c, d, e);
  int r = sgn(ref_insphere(mant(a), mant(b), mant(c), mant(d), mant(e)));
  __verif_check(s == INSPHERE_SIGN * r);
  __verif_check(ExactGeometricTests::insphere_exact(b, a, c, d, e) == -s);
  __verif_check(ExactGeometricTests::insphere_exact(a, b, c, e, d) == -s);
  __verif_check(ExactGeometricTests::insphere_exact(b, c, a, d, e) == s);
}
// E2 (Engine A, bit-precise): for every double in [1,2) the extracted 52-bit field equals (x-1)*2^52 exactly, and is monotone
__attribute__((noinline)) void h_e2_mantissa(void) {
  double x = nondet_double(), y = nondet_double();
  __CPROVER_assume(x >= 1. && x < 2. && y >= 1. && y < 2.);
  uint64_t mx = ExactGeometricTests::get_mantissa(x), my = ExactGeometricTests::get_mantissa(y);
  __verif_check(mx < ((uint64_t)1 << 52));
  __verif_check((double)mx == (x - 1.) * 4503599627370496.);
  __verif_check((x < y) == (mx < my));
  __verif_check((x == y) == (mx == my));
}

// E4 (Engine B, real-model reading): the floating-point filter of orient3d_adaptive.  In the exact-real reading of the code,
// whenever the filter answers by itself (without deferring to orient3d_exact on the SAME four points) the true determinant D of the
// difference vectors lies on the answered side by at least C4 * P, where P is the permanent (the determinant's six triple products with
// absolute values).  C4 = 7e-16 exceeds the standard forward error bound gamma_5 = 5u/(1-5u) = 5.6e-16 (u = 2^-53) of ANY cofactor
// evaluation of a 3x3 determinant whose entries are exact (differences of [1,2) numbers are exact), and lies below Shewchuk's static
// filter constant 7.77e-16, so a correct tight filter passes and a bound that forgets or misplaces a term does not.
#define C4 7.e-16
__attribute__((noinline)) void h_e4_orient_filter(void) {
  // the points are written as d + (difference) so that, in the real reading, the code's own differences simplify to the 9 free
  // difference symbols (every a, d in [1,2) is of this form: no loss of generality over the reals)
  const CoordinateVector<> d = pt(), u = pt(), v = pt(), w = pt();
  const CoordinateVector<> a(d.x() + u.x(), d.y() + u.y(), d.z() + u.z()), b(d.x() + v.x(), d.y() + v.y(), d.z() + v.z()), c(d.x() + w.x(), d.y() + w.y(), d.z() + w.z());
  __CPROVER_assume((a.x() >= 1.) & (a.x() < 2.) & (a.y() >= 1.) & (a.y() < 2.) & (a.z() >= 1.) & (a.z() < 2.) & (b.x() >= 1.) & (b.x() < 2.) & (b.y() >= 1.) & (b.y() < 2.) & (b.z() >= 1.) & (b.z() < 2.) &
                   (c.x() >= 1.) & (c.x() < 2.) & (c.y() >= 1.) & (c.y() < 2.) & (c.z() >= 1.) & (c.z() < 2.) & (d.x() >= 1.) & (d.x() < 2.) & (d.y() >= 1.) & (d.y() < 2.) & (d.z() >= 1.) & (d.z() < 2.));
  const int s = ExactGeometricTests::orient3d_adaptive(a, b, c, d);
  const int sx = ExactGeometricTests::orient3d_exact(a, b, c, d);
  const double adx = a.x() - d.x(), ady = a.y() - d.y(), adz = a.z() - d.z(), bdx = b.x() - d.x(), bdy = b.y() - d.y(), bdz = b.z() - d.z(), cdx = c.x() - d.x(), cdy = c.y() - d.y(), cdz = c.z() - d.z();
  // reference determinant, expanded along the FIRST row (the code expands along the z column)
  const double D = adx * (bdy * cdz - bdz * cdy) - ady * (bdx * cdz - bdz * cdx) + adz * (bdx * cdy - bdy * cdx);
  const double P = (fabs(bdx * cdy) + fabs(cdx * bdy)) * fabs(adz) + (fabs(cdx * ady) + fabs(adx * cdy)) * fabs(bdz) + (fabs(adx * bdy) + fabs(bdx * ady)) * fabs(cdz);
  __verif_check((s == sx) | ((s == 1) & (D >= C4 * P)) | ((s == -1) & (-D >= C4 * P)));
}

// E4' (Engine B, real-model reading): insphere_adaptive either returns insphere_exact of the SAME five points in the SAME order, or answers
// by itself with the sign of the exact real in-sphere determinant of the differences to e (sign clause only; the margin clause is decided
// for orient3d_adaptive above)
static inline double rdet3(double a, double b, double c, double d, double e, double f, double g, double h, double i) { return a * (e * i - f * h) - b * (d * i - f * g) + c * (d * h - e * g); }
__attribute__((noinline)) void h_e4_insphere_fallback(void) {
  const CoordinateVector<> e = pt(), p = pt(), q = pt(), r = pt(), t = pt();
  const CoordinateVector<> a(e.x() + p.x(), e.y() + p.y(), e.z() + p.z()), b(e.x() + q.x(), e.y() + q.y(), e.z() + q.z()), c(e.x() + r.x(), e.y() + r.y(), e.z() + r.z()), d(e.x() + t.x(), e.y() + t.y(), e.z() + t.z());
  const int s = ExactGeometricTests::insphere_adaptive(a, b, c, d, e);
  const int sx = ExactGeometricTests::insphere_exact(a, b, c, d, e);
  const double na = p.x() * p.x() + p.y() * p.y() + p.z() * p.z(), nb = q.x() * q.x() + q.y() * q.y() + q.z() * q.z(), nc = r.x() * r.x() + r.y() * r.y() + r.z() * r.z(), nd = t.x() * t.x() + t.y() * t.y() + t.z() * t.z();
  const double D = nd * rdet3(p.x(), p.y(), p.z(), q.x(), q.y(), q.z(), r.x(), r.y(), r.z()) - nc * rdet3(p.x(), p.y(), p.z(), q.x(), q.y(), q.z(), t.x(), t.y(), t.z())
                 + nb * rdet3(p.x(), p.y(), p.z(), r.x(), r.y(), r.z(), t.x(), t.y(), t.z()) - na * rdet3(q.x(), q.y(), q.z(), r.x(), r.y(), r.z(), t.x(), t.y(), t.z());
  __verif_check((s == sx) | ((s == 1) & (D > 0.)) | ((s == -1) & (D < 0.)));
}
}
