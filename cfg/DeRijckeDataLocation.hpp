/*******************************************************************************
 * This file is part of CMacIonize
 * Copyright (C) 2018 Bert Vandenbroucke (bert.vandenbroucke@gmail.com)
 *
 * CMacIonize is free software: you can redistribute it and/or modify
 * it under the terms of the GNU Affero General Public License as published by
 * the Free Software Foundation, either version 3 of the License, or
 * (at your option) any later version.
 *
 * CMacIonize is distributed in the hope that it will be useful,
 * but WITOUT ANY WARRANTY; without even the implied warranty of
 * MERCHANTABILITY or FITNESS FOR A PARTICULAR PURPOSE. See the
 * GNU Affero General Public License for more details.
 *
 * You should have received a copy of the GNU Affero General Public License
 * along with CMacIonize. If not, see <http://www.gnu.org/licenses/>.
 ******************************************************************************/

/**
 * @file DeRijckeDataLocation.hpp
 *
 * @brief CMake configured file storing the location of the De Rijcke et al.
 * (2013) cooling tables on the local system.
 *
 * This file should never be edited directly. Instead, edit
 * DeRijckeDataLocation.hpp.in.
 *
 * @author Bert Vandenbroucke (bv7@st-andrews.ac.uk)
 */
#ifndef DERIJCKEDATALOCATION_HPP
#define DERIJCKEDATALOCATION_HPP

#define DERIJCKEDATALOCATION "/repo/_build/data/DeRijckeCooling/"

#endif // DERIJCKEDATALOCATION_HPP
