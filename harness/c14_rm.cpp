// C14: the REAL text of RestartManager.hpp (copied verbatim from /repo/src on every run) compiled against a
// model environment: std::string/stringstream/rename/RestartWriter are tiny value models, the file system is an array.
#include "RestartManager.hpp"
extern "C" {
#define NB 9
int fs_dump; int fs_back[NB];   /* 0 absent, v>0 complete version v, -1 truncated/partial */
long crash_countdown; int prev_version; unsigned long cfg_maxb;
int __verif_strkind(const char *s){
  if (s[0]=='.') return 6;                         /* ".back" */
  if (s[1]=='s') return 3;                         /* "/stop" */
  if (s[9]==0) return 5;                           /* "/restart." */
  if (s[9]=='d') return 1;                         /* "/restart.dump" */
  return 2;                                        /* "/restart.0.back" -> back, idx 0 */
}
static inline int *slot(const void *p){ const std::string *s=(const std::string*)p; return s->kind==1 ? &fs_dump : &fs_back[s->idx]; }
/* a crash can happen before or after every file-system operation and in the middle of the write */
static inline void crash_point(void){
  if (crash_countdown == 0) {
    /* the process dies here: a complete dump of the previous state must still be on disk (>= 1 backup configured) */
    if (cfg_maxb >= 1 && prev_version >= 1) {
      bool found = (fs_dump == prev_version);
      for (int i = 0; i < NB; ++i) found = found || (fs_back[i] == prev_version);
      __verif_check(found);
    }
    __CPROVER_assume(0);
  }
  --crash_countdown;
}
int __verif_rename(const void *a, const void *b){
  const std::string *sa=(const std::string*)a, *sb=(const std::string*)b;
  __verif_check(sa->kind==1 || (sa->kind==2 && sa->idx<NB)); __verif_check(sb->kind==2 && sb->idx<NB);
  crash_point();
  int *pa=slot(a), *pb=slot(b); if (*pa==0) return -1; *pb=*pa; *pa=0;     /* POSIX rename: atomic replace, fails iff source absent */
  crash_point();
  return 0; }
void __verif_open_trunc(const void *f){ const std::string *s=(const std::string*)f; __verif_check(s->kind==1); crash_point(); fs_dump=-1; crash_point(); }
int __verif_remove(const void*){ return 0; } int __verif_file_exists(const void*){ return 0; } double __verif_clock(void){ return 0.; }

/* inductive step: arbitrary max_backups in [0,8], arbitrary history length d encoded by the representation invariant */
__attribute__((noinline)) void h_rm_step(void){
  unsigned long maxb = nondet_ulong(), d = nondet_ulong();
  __CPROVER_assume(maxb <= MAXB && d <= DMAX);
  unsigned long nb = d==0 ? 0 : (d-1 < maxb ? d-1 : maxb);
  fs_dump = d>0 ? (int)d : 0;
  for (unsigned long i=0;i<NB;i++) fs_back[i] = (i<nb) ? (int)(d-1-i) : 0;
  crash_countdown = nondet_long(); __CPROVER_assume(crash_countdown >= -1 && crash_countdown <= 2*NB+4);
#ifdef NOCRASH
  crash_countdown = -1;
#endif
  prev_version = (int)d; cfg_maxb = maxb;
  RestartManager m(std::string(), 0., maxb, 0., std::string());
  m._number_of_restarts = d; m._number_of_backups = nb;
  RestartWriter *w = m.get_restart_writer(nullptr);
  __verif_check(fs_dump == -1);
  crash_point();                                  /* mid-write */
  fs_dump = (int)(d+1);                           /* the write completes */
  crash_point();
  __CPROVER_assume(crash_countdown != -1 || true);
  unsigned long d2=d+1, nb2 = (d2-1 < maxb ? d2-1 : maxb);
  __verif_check(m._number_of_restarts == d2);
  __verif_check(m._number_of_backups == nb2);
  __verif_check(fs_dump == (int)d2);              /* newest state in the main dump file */
  for (unsigned long i=0;i<NB;i++) __verif_check(fs_back[i] == ((i<nb2) ? (int)(d2-1-i) : 0));   /* previous dumps newest-first, oldest dropped */
}
/* fresh manager: the first dumps from the constructor state (no representation invariant involved) */
__attribute__((noinline)) void h_rm_fresh(void){
  unsigned long maxb = nondet_ulong(); __CPROVER_assume(maxb <= MAXB);
  fs_dump = 0; for (unsigned long i=0;i<NB;i++) fs_back[i]=0;
  crash_countdown = -1; prev_version = 0; cfg_maxb = maxb;
  RestartManager m(std::string(), 0., maxb, 0., std::string());
  for (int k = 1; k <= 3; ++k) {
    m.get_restart_writer(nullptr); fs_dump = k;
    unsigned long nb = ((unsigned long)(k-1) < maxb ? (unsigned long)(k-1) : maxb);
    for (unsigned long i=0;i<NB;i++) __verif_check(fs_back[i] == ((i<nb) ? (int)(k-1-i) : 0));
  }
}
}
