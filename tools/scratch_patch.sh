#!/bin/sh
# usage: scratch_patch.sh <patch> <timeout_s> <ID> [check args...]
# development aid: runs ./check <ID> against a patched scratch COPY of /repo/src (VERIF_REPO), with its own work and evidence
# directories (VERIF_TAG), so that /repo and the registered evidence are never touched.  Registered results always come from
# tools/with_patch.sh (apply to /repo, run, revert).
P=$1; T=$2; ID=$3; shift 3
S=$(mktemp -d /tmp/vscratch.XXXXXX); cp -r /repo/src $S/src; (cd $S && patch -s -p1 < $P) || { rm -rf $S; exit 9; }
cd "$(dirname "$0")/.."
VERIF_REPO=$S VERIF_TAG=_s$$ timeout $T ./check $ID "$@"; rc=$?
rm -rf $S .work/evidence_s$$ .work/${ID}_s$$
exit $rc
