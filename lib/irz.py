#!/usr/bin/env python3
"""Engine B: symbolic executor for the LLVM-14 IR subset, verdicts by z3.

Integers are bit-precise (python ints when concrete, z3 BitVec when symbolic); doubles are z3 Real terms whose rounded
operations are uninterpreted functions constrained by ground-instantiated axioms that are theorems of IEEE-754 binary64
round-to-nearest on finite values (sound abstraction: unsat => holds for the real arithmetic; sat => candidate, to be
replayed natively).  Exactness lemmas (power-of-two scaling, bounded dyadics) turn the operations the code performs on
exactly representable values into exact rational arithmetic, each use recording its side condition.
A concrete domain (python floats) runs the very same interpreter for translation validation against the native build."""
import re, sys, time, struct, math
from fractions import Fraction
import z3
from ir import *

class Unsupported(Exception): pass
CALL_REAL = object()
import threading
def zcheck(solver, ms=None):
    """solver.check() with a hard wall-clock guard: z3's own timeout is not honoured inside some preprocessing steps
    (bit-blasting of wide dividers, int<->bv conversions), so a watchdog interrupts the context"""
    ms = ms or getattr(solver, '_hard_ms', 60000)
    t = threading.Timer(ms / 1000.0 * 1.3 + 2.0, solver.ctx.interrupt); t.daemon = True; t.start()
    try: return solver.check()
    except z3.Z3Exception: return z3.unknown
    finally: t.cancel()
class Abort(Exception): pass          # path ended in unreachable / assume(false)
class PathEnd(Exception): pass
class LoopBound(Exception): pass

R = z3.RealSort()
def RV(x):
    if isinstance(x, Fraction): return z3.RealVal(str(x.numerator)) / z3.RealVal(str(x.denominator)) if x.denominator != 1 else z3.RealVal(str(x.numerator))
    if isinstance(x, float): return RV(Fraction(x))
    return z3.RealVal(x)
def is_const(t): return z3.is_rational_value(t) or (z3.is_app(t) and t.decl().kind() == z3.Z3_OP_DIV and all(z3.is_rational_value(c) for c in t.children()))
def const_frac(t):
    t = z3.simplify(t)
    if z3.is_rational_value(t): return Fraction(t.numerator_as_long(), t.denominator_as_long())
    return None
def is_pow2(fr):
    if fr is None or fr == 0: return False
    fr = abs(fr); n, d = fr.numerator, fr.denominator
    return (n & (n - 1)) == 0 and (d & (d - 1)) == 0

def split_pow2(t):
    """t == c * core with c a power-of-two literal (A8: such factors commute exactly with rounded *, / barring over/underflow)"""
    if z3.is_app(t) and t.decl().kind() == z3.Z3_OP_MUL and t.num_args() == 2:
        c = const_frac(t.arg(0))
        if c is not None and is_pow2(c) and c != 1: return c, t.arg(1)
    return Fraction(1), t

def contains_uf(t, _cache={}):
    # NOTE: z3 AST ids are only unique among LIVE nodes - every id-keyed cache keeps its key term alive
    k = t.get_id()
    if k in _cache: return _cache[k][0]
    r = False
    if z3.is_app(t):
        if t.decl().kind() == z3.Z3_OP_UNINTERPRETED and t.num_args() > 0: r = True
        else: r = any(contains_uf(c) for c in t.children())
    _cache[k] = (r, t)
    return r

# ---------------------------------------------------------------- symbolic FP domain (IEEE-UF)
class SymFP:
    """doubles as z3 Reals; rounded ops are UFs with ground axioms A1-A5,A8,A9 (DESIGN.md 2.2)"""
    concrete = False
    def __init__(s, monotone=False, exact_add=False, strict=False):
        s.strict = strict   # stated no-underflow domain: products/quotients/roots of non-zero values are non-zero
        s.ax = []; s.seen = set(); s.UF = {}; s.tiny_sites = []; s.side = []; s.monotone = monotone; s.apps = {}
        s.exact_add = exact_add    # A7 mode: additions are exact, each use records a representability side condition (proved by the caller)
        s.exact_obl = []; s.num = {}; s.keep = []; s.ibnd = {}
    def uf(s, name, n):
        if name not in s.UF: s.UF[name] = z3.Function(name, *([R] * (n + 1)))
        return s.UF[name]
    # ---- exact dyadic sub-domain (A7): Real terms known to be n/2^q with n a z3 Int term are computed in pure integer arithmetic
    def dy(s, t):
        k = t.get_id()
        if k in s.num: return s.num[k]
        fr = const_frac(t)
        if fr is not None:
            d = fr.denominator
            if d & (d - 1) == 0 and d <= 2**80 and abs(fr.numerator) < 2**200:
                q = d.bit_length() - 1; return (z3.IntVal(fr.numerator), q)
        return None
    # ---- interval bounds of dyadic numerators (sound, syntactic): decide comparisons and exactness side conditions without the solver
    def ib(s, i):
        if z3.is_int_value(i): v = i.as_long(); return (v, v)
        b = s.ibnd.get(i.get_id())
        if b is not None: return b
        ci = s.const_ite(i)
        if ci is not None: return (min(ci[1], ci[2]), max(ci[1], ci[2]))
        if z3.is_app(i) and i.decl().kind() == z3.Z3_OP_ITE and z3.is_int(i):
            a, b2 = s.ib(i.arg(1)), s.ib(i.arg(2))
            if a is not None and b2 is not None: return s.setb(i, min(a[0], b2[0]), max(a[1], b2[1]))
        return None
    def setb(s, i, lo, hi):
        if z3.is_expr(i) and not z3.is_int_value(i): s.ibnd[i.get_id()] = (lo, hi); s.keep.append(i)
        return (lo, hi)
    def mk_dy(s, i, q):
        b0 = s.ib(i) if z3.is_expr(i) else None
        if s.const_ite(i) is None:
            i = z3.simplify(i)
            if b0 is not None: s.setb(i, *b0)
        if z3.is_int_value(i): t = RV(Fraction(i.as_long(), 2**q))
        else: t = z3.simplify(z3.ToReal(i) / RV(2**q) if q > 0 else z3.ToReal(i))
        s.num[t.get_id()] = (i, q); s.keep.append(t)
        t2 = z3.simplify(t)
        if t2.get_id() != t.get_id(): s.num[t2.get_id()] = (i, q); s.keep.append(t2)
        return t
    @staticmethod
    def const_ite(i):
        """If(c, k1, k2) with integer literals k1,k2 -> (c, k1, k2)"""
        if z3.is_app(i) and i.decl().kind() == z3.Z3_OP_ITE and z3.is_int_value(i.arg(1)) and z3.is_int_value(i.arg(2)):
            return (i.arg(0), i.arg(1).as_long(), i.arg(2).as_long())
        return None
    def scale(s, i, f):
        if f == 1: return i
        ci = s.const_ite(i)
        if ci is not None: return z3.If(ci[0], z3.IntVal(ci[1] * f), z3.IntVal(ci[2] * f))
        b = s.ib(i); r = i * f
        if b is not None: s.setb(r, min(b[0] * f, b[1] * f), max(b[0] * f, b[1] * f))
        return r
    def add_int(s, ia, ib):
        """ia + ib, pushing the addition into an ite whose branches are literals (borrow/carry terms) so that
        `t - If(c,eps,0)` and `If(c, t-eps, t)` become the same term"""
        ba, bb = s.ib(ia), s.ib(ib)
        for (x, y) in ((ia, ib), (ib, ia)):
            cy = s.const_ite(y)
            if cy is not None and s.const_ite(x) is None:
                bx = s.ib(x); t1 = z3.simplify(x + cy[1]); t2 = z3.simplify(x + cy[2])
                if bx is not None: s.setb(t1, bx[0] + cy[1], bx[1] + cy[1]); s.setb(t2, bx[0] + cy[2], bx[1] + cy[2])
                r = z3.If(cy[0], t1, t2)
                if ba is not None and bb is not None: s.setb(r, ba[0] + bb[0], ba[1] + bb[1])
                return r
        r = z3.simplify(ia + ib)
        if ba is not None and bb is not None: s.setb(r, ba[0] + bb[0], ba[1] + bb[1])
        return r
    def common(s, da, db):
        q = max(da[1], db[1])
        ia = s.scale(da[0], 2**(q - da[1])) if q > da[1] else da[0]
        ib = s.scale(db[0], 2**(q - db[1])) if q > db[1] else db[0]
        return ia, ib, q
    def uf_i2d(s):
        if 'i2d' not in s.UF: s.UF['i2d'] = z3.Function('i2d', z3.IntSort(), R)
        return s.UF['i2d']
    def reg(s, t):
        if t.get_id() in s.seen: return False
        s.seen.add(t.get_id()); s.keep.append(t); return True
    def const(s, x):
        if x != x or x in (float('inf'), float('-inf')): return INF if x > 0 else (-INF if x < 0 else NAN)
        return RV(Fraction(x))
    def from_int(s, v): return RV(v)
    def neg(s, a):
        if s.exact_add:
            d = s.dy(a)
            if d is not None and not is_const(a): return s.mk_dy(s.scale(d[0], -1), d[1])
        return z3.simplify(-a)
    def mono(s, name, t, args):
        """A5: weak monotonicity between applications of the same function (pairwise, capped)"""
        if not s.monotone: return
        lst = s.apps.setdefault(name, [])
        if len(lst) < 40:
            f = s.UF[name]
            for (t2, args2) in lst:
                if len(args) == 1:
                    s.ax.append(z3.Implies(args[0] <= args2[0], t <= t2)); s.ax.append(z3.Implies(args2[0] <= args[0], t2 <= t))
                elif name in ('fmul',):
                    for (x, y, x2, y2) in ((args[0], args[1], args2[0], args2[1]),):
                        s.ax.append(z3.Implies(z3.And(x == x2, y >= 0, x >= 0, y <= y2), t <= t2)); s.ax.append(z3.Implies(z3.And(x == x2, x >= 0, y2 <= y), t2 <= t))
                        s.ax.append(z3.Implies(z3.And(y == y2, y >= 0, x <= x2), t <= t2)); s.ax.append(z3.Implies(z3.And(y == y2, y >= 0, x2 <= x), t2 <= t))
                        s.ax.append(z3.Implies(z3.And(x >= 0, y >= 0, x <= x2, y <= y2), t <= t2)); s.ax.append(z3.Implies(z3.And(x2 >= 0, y2 >= 0, x2 <= x, y2 <= y), t2 <= t))
                elif name in ('fadd',):
                    x, y, x2, y2 = args[0], args[1], args2[0], args2[1]
                    s.ax.append(z3.Implies(z3.And(x <= x2, y <= y2), t <= t2)); s.ax.append(z3.Implies(z3.And(x2 <= x, y2 <= y), t2 <= t))
                elif name == 'pow':
                    # x^b is weakly increasing in x >= 0 for a fixed exponent b > 0 and weakly decreasing for b < 0 (correctly rounded or not, libm's pow is monotone in the base for the exponents used here: stated assumption)
                    x, b_, x2, b2 = args[0], args[1], args2[0], args2[1]
                    cb = const_frac(b_)
                    if cb is not None and b_.eq(b2) and cb != 0:
                        if cb > 0: s.ax.append(z3.Implies(z3.And(x >= 0, x <= x2), t <= t2)); s.ax.append(z3.Implies(z3.And(x2 >= 0, x2 <= x), t2 <= t))
                        else: s.ax.append(z3.Implies(z3.And(x > 0, x <= x2), t >= t2)); s.ax.append(z3.Implies(z3.And(x2 > 0, x2 <= x), t2 >= t))
                elif name in ('fdiv',):
                    x, y, x2, y2 = args[0], args[1], args2[0], args2[1]
                    s.ax.append(z3.Implies(z3.And(y == y2, y > 0, x <= x2), t <= t2)); s.ax.append(z3.Implies(z3.And(y == y2, y > 0, x2 <= x), t2 <= t))
                    s.ax.append(z3.Implies(z3.And(x >= 0, x <= x2, y > 0, y2 > 0, y2 <= y), t <= t2)); s.ax.append(z3.Implies(z3.And(x2 >= 0, x2 <= x, y > 0, y2 > 0, y <= y2), t2 <= t))
            lst.append((t, args))
    def fmul(s, a, b):
        a = z3.simplify(a); b = z3.simplify(b)
        ca, cb = const_frac(a), const_frac(b)
        if ca is not None and cb is not None and ca * cb == Fraction(float(ca) * float(cb)) and Fraction(float(ca)) == ca and Fraction(float(cb)) == cb:
            return RV(ca * cb)      # both literals, product exactly representable
        for (c, x) in ((ca, b), (cb, a)):
            if c is not None and (c == 0): return RV(0)
            if c is not None and is_pow2(c):
                # A8: scaling by a power of two is exact when no overflow/underflow (side condition recorded)
                s.side.append(('pow2-scale', x, c))
                if s.exact_add:
                    d = s.dy(x)
                    if d is not None and not is_const(x):
                        sg = -1 if c < 0 else 1; ac = abs(c)
                        if ac >= 1: return s.mk_dy(s.scale(d[0], sg * int(ac)), d[1])
                        return s.mk_dy(s.scale(d[0], sg), d[1] + (int(1 / ac).bit_length() - 1))
                return z3.simplify(x * RV(c))
        pa, a0 = split_pow2(a); pb, b0 = split_pow2(b)
        if pa != 1 or pb != 1:
            s.side.append(('pow2-scale', a, pa * pb)); return z3.simplify(s.fmul(a0, b0) * RV(pa * pb))
        f = s.uf('fmul', 2); t = f(a, b)
        if s.reg(t):
            na, nb = s.neg(a), s.neg(b)
            for (x, y, sg) in [(a, b, 1), (na, b, -1), (a, nb, -1), (na, nb, 1)]:
                s.ax.append(f(x, y) == sg * t); s.ax.append(f(y, x) == sg * t)
            s.ax.append(z3.Implies(z3.Or(a == 0, b == 0), t == 0))
            s.ax.append(z3.Implies(a == 1, t == b)); s.ax.append(z3.Implies(b == 1, t == a))
            s.ax.append(z3.Implies(z3.And(a >= 0, b >= 0), t >= 0)); s.ax.append(z3.Implies(z3.And(a <= 0, b <= 0), t >= 0))
            s.ax.append(z3.Implies(z3.And(a >= 0, b <= 0), t <= 0)); s.ax.append(z3.Implies(z3.And(a <= 0, b >= 0), t <= 0))
            # strictness is NOT a theorem in general (underflow to zero); asserted only for harnesses whose stated domain excludes underflow
            if s.strict: s.ax.append(z3.Implies(z3.And(a != 0, b != 0), t != 0))
            s.mono('fmul', t, (a, b))
        return t
    def fadd(s, a, b):
        a = z3.simplify(a); b = z3.simplify(b)
        ca, cb = const_frac(a), const_frac(b)
        if ca is not None and cb is not None:
            try:
                fs = float(ca) + float(cb)
                if Fraction(float(ca)) == ca and Fraction(float(cb)) == cb: return RV(Fraction(fs))   # literal folding = the rounded sum
            except OverflowError: pass
        if ca == 0: return b
        if cb == 0: return a
        if s.exact_add:
            da, db = s.dy(a), s.dy(b)
            if da is not None and db is not None:
                ia, ib, q = s.common(da, db); i = s.add_int(ia, ib)
                t = s.mk_dy(i, q)
                # A7 side condition: |n| <= 2^53 (then n/2^q has <= 53 significant bits and the rounded sum IS the exact sum)
                bi = s.ib(i)
                s.exact_obl.append((a, b, t, z3.BoolVal(True) if (bi is not None and -2**53 <= bi[0] and bi[1] <= 2**53) else z3.And(i <= 2**53, i >= -2**53)))
                return t
        f = s.uf('fadd', 2); t = f(a, b)
        if s.reg(t):
            na, nb = s.neg(a), s.neg(b)
            s.ax.append(f(b, a) == t); s.ax.append(f(na, nb) == -t); s.ax.append(f(nb, na) == -t)
            s.ax.append(z3.Implies(a == 0, t == b)); s.ax.append(z3.Implies(b == 0, t == a))
            s.ax.append(z3.Implies(a == -b, t == 0))
            s.ax.append(z3.Implies(z3.And(a >= 0, b >= 0), z3.And(t >= a, t >= b)))
            s.ax.append(z3.Implies(z3.And(a <= 0, b <= 0), z3.And(t <= a, t <= b)))
            s.ax.append(z3.Implies(a >= -b, t >= 0)); s.ax.append(z3.Implies(a <= -b, t <= 0))
            # rounding is monotone and a, -b... are representable: a+b >= c (c representable operand) => fl(a+b) >= c
            s.ax.append(z3.Implies(b >= 0, t >= a)); s.ax.append(z3.Implies(b <= 0, t <= a))
            s.ax.append(z3.Implies(a >= 0, t >= b)); s.ax.append(z3.Implies(a <= 0, t <= b))
            BIG = RV(Fraction(1, 2**940))
            for (x, y) in ((a, b), (b, a)):
                yy = const_frac(y)
                if yy is not None and yy != 0 and abs(yy) <= Fraction(1, 2**1000):
                    # A9 absorption: |y| <= 2^-1000 and |x| >= 2^-940  =>  fadd(x,y) == x
                    s.ax.append(z3.Implies(z3.Or(x >= BIG, x <= -BIG), t == x)); s.tiny_sites.append(x)
            s.mono('fadd', t, (a, b))
        return t
    def fsub(s, a, b): return s.fadd(a, s.neg(b))
    def fdiv(s, a, b):
        a = z3.simplify(a); b = z3.simplify(b)
        ca, cb = const_frac(a), const_frac(b)
        if cb is not None and cb != 0 and is_pow2(cb):
            s.side.append(('pow2-scale', a, 1 / cb)); return z3.simplify(a / RV(cb))
        if ca is not None and cb is not None and cb != 0 and Fraction(float(ca)) == ca and Fraction(float(cb)) == cb:
            return RV(Fraction(float(ca) / float(cb)))
        pa, a0 = split_pow2(a); pb, b0 = split_pow2(b)
        if ca is not None and ca != 0 and is_pow2(ca) and abs(ca) != 1: pa, a0 = abs(ca), RV(1 if ca > 0 else -1)
        if pa != 1 or pb != 1:
            s.side.append(('pow2-scale', a, pa / pb)); return z3.simplify(s.fdiv(a0, b0) * RV(pa / pb))
        f = s.uf('fdiv', 2); t = f(a, b)
        if s.reg(t):
            na, nb = s.neg(a), s.neg(b)
            s.ax.append(f(na, b) == -t); s.ax.append(f(a, nb) == -t); s.ax.append(f(na, nb) == t)
            s.ax.append(z3.Implies(z3.And(a == 0, b != 0), t == 0)); s.ax.append(z3.Implies(b == 1, t == a))
            s.ax.append(z3.Implies(z3.And(a == b, b != 0), t == 1))
            s.ax.append(z3.Implies(z3.And(a >= 0, b > 0), t >= 0)); s.ax.append(z3.Implies(z3.And(a <= 0, b > 0), t <= 0))
            s.ax.append(z3.Implies(z3.And(a >= 0, b < 0), t <= 0)); s.ax.append(z3.Implies(z3.And(a <= 0, b < 0), t >= 0))
            # |a| <= |b| => |a/b| <= 1 ; |a| >= |b| => |a/b| >= 1  (rounding is monotone, 1 is representable)
            s.ax.append(z3.Implies(z3.And(a >= 0, b > 0, a <= b), t <= 1)); s.ax.append(z3.Implies(z3.And(a >= 0, b > 0, a >= b), t >= 1))
            if s.strict: s.ax.append(z3.Implies(z3.And(a != 0, b != 0), t != 0))
            s.mono('fdiv', t, (a, b))
        return t
    def fun1(s, name, a):
        a = z3.simplify(a); f = s.uf(name, 1); t = f(a)
        if s.reg(t):
            if name == 'sqrt':
                s.ax.append(t >= 0); s.ax.append(z3.Implies(a == 0, t == 0)); s.ax.append(z3.Implies(a == 1, t == 1)); s.ax.append(z3.Implies(a > 0, t > 0))
                s.ax.append(z3.Implies(a >= 1, t >= 1)); s.ax.append(z3.Implies(z3.And(a >= 0, a <= 1), t <= 1))
            elif name == 'exp': s.ax.append(t >= 0); s.ax.append(z3.Implies(a == 0, t == 1)); s.ax.append(z3.Implies(a <= 0, t <= 1)); s.ax.append(z3.Implies(a >= 0, t >= 1))
            elif name in ('log', 'log10'): s.ax.append(z3.Implies(a == 1, t == 0)); s.ax.append(z3.Implies(a >= 1, t >= 0)); s.ax.append(z3.Implies(z3.And(a > 0, a <= 1), t <= 0))
            elif name in ('floor', 'ceil', 'round', 'trunc'):
                if name == 'floor': s.ax.append(t <= a); s.ax.append(t > a - 1)
                if name == 'ceil': s.ax.append(t >= a); s.ax.append(t < a + 1)
            s.mono(name, t, (a,)) if name in ('sqrt', 'exp', 'log', 'log10', 'floor', 'ceil') else None
        return t
    def fun2(s, name, a, b):
        a = z3.simplify(a); b = z3.simplify(b); f = s.uf(name, 2); t = f(a, b)
        if s.reg(t):
            if name == 'pow':
                s.ax.append(z3.Implies(a >= 0, t >= 0)); s.ax.append(z3.Implies(b == 0, t == 1)); s.ax.append(z3.Implies(a == 1, t == 1)); s.ax.append(z3.Implies(b == 1, t == a))
                s.ax.append(z3.Implies(z3.And(a == 0, b > 0), t == 0))
                s.ax.append(z3.Implies(z3.And(a >= 1, b >= 0), t >= 1)); s.ax.append(z3.Implies(z3.And(a >= 0, a <= 1, b >= 0), t <= 1))
                if s.strict: s.ax.append(z3.Implies(a > 0, t > 0))
                s.mono('pow', t, (a, b))
        return t
    def fabs(s, a): return z3.simplify(z3.If(a >= 0, a, -a))
    def fmin(s, a, b): return z3.simplify(z3.If(a <= b, a, b))
    def fmax(s, a, b): return z3.simplify(z3.If(a >= b, a, b))
    def select(s, c, a, b):
        if s.exact_add and z3.is_expr(a) and z3.is_expr(b):
            da, db = s.dy(a), s.dy(b)
            if da is not None and db is not None and not (is_const(a) and is_const(b) and False):
                ia, ib, q = s.common(da, db); r_ = z3.If(c, ia, ib); ba, bb = s.ib(ia), s.ib(ib)
                if ba is not None and bb is not None: s.setb(r_, min(ba[0], bb[0]), max(ba[1], bb[1]))
                return s.mk_dy(r_, q)
        return z3.simplify(z3.If(c, a, b))
    def cmp(s, pr, a, b, tie_free=False):
        if s.exact_add and pr not in ('ord', 'uno', 'true', 'false') and z3.is_expr(a) and z3.is_expr(b):
            da, db = s.dy(a), s.dy(b)
            if da is not None and db is not None and not (is_const(a) and is_const(b)):
                ia, ib, q = s.common(da, db)
                ba, bb = s.ib(ia), s.ib(ib)
                if ba is not None and bb is not None:
                    rel = pr[1:]
                    if rel in ('lt', 'ge'):
                        if ba[1] < bb[0]: return z3.BoolVal(rel == 'lt')
                        if ba[0] >= bb[1]: return z3.BoolVal(rel == 'ge')
                    elif rel in ('le', 'gt'):
                        if ba[1] <= bb[0]: return z3.BoolVal(rel == 'le')
                        if ba[0] > bb[1]: return z3.BoolVal(rel == 'gt')
                    elif rel in ('eq', 'ne'):
                        if ba[1] < bb[0] or bb[1] < ba[0]: return z3.BoolVal(rel == 'ne')
                return z3.simplify({'eq': ia == ib, 'ne': ia != ib, 'lt': ia < ib, 'le': ia <= ib, 'gt': ia > ib, 'ge': ia >= ib}[pr[1:]])
        inf_a = z3.is_expr(a) and (a.eq(INF) or a.eq(-INF)); inf_b = z3.is_expr(b) and (b.eq(INF) or b.eq(-INF))
        if inf_a or inf_b:
            # finite-domain abstraction: every finite value is strictly between -INF and +INF
            if inf_a and inf_b: va = 1 if a.eq(INF) else -1; vb = 1 if b.eq(INF) else -1
            elif inf_a: va = 1 if a.eq(INF) else -1; vb = 0
            else: va = 0; vb = 1 if b.eq(INF) else -1
            tv = {'oeq': va == vb, 'ueq': va == vb, 'one': va != vb, 'une': va != vb, 'olt': va < vb, 'ult': va < vb, 'ole': va <= vb, 'ule': va <= vb,
                  'ogt': va > vb, 'ugt': va > vb, 'oge': va >= vb, 'uge': va >= vb, 'ord': True, 'uno': False}[pr]
            return z3.BoolVal(tv)
        if pr in ('ord', 'true'): return z3.BoolVal(True)
        if pr in ('uno', 'false'): return z3.BoolVal(False)
        if tie_free and pr[1:] in ('lt', 'le', 'gt', 'ge') and (contains_uf(a) or contains_uf(b)) and not (is_const(a) and is_const(b)):
            s.ties.append(z3.simplify(a == b))
            s.ax.append(a != b)        # stated exclusion: no ties between computed values (flushed into the solver like an axiom)
            pr = pr[0] + {'le': 'lt', 'ge': 'gt'}.get(pr[1:], pr[1:])
        r = {'eq': a == b, 'ne': a != b, 'lt': a < b, 'le': a <= b, 'gt': a > b, 'ge': a >= b}[pr[1:]]
        return z3.simplify(r)
    ties = None

INF = z3.Real('__INF'); NAN = z3.Real('__NAN')

class RealFP(SymFP):
    """REAL-MODEL domain (DESIGN.md 8.7): every double operation is the exact real operation (rounding is outside the claim of a
    harness that uses it); sqrt/exp/pow/log are uninterpreted with their defining real-number facts; every division records the
    obligation that its denominator is non-zero (a zero denominator is an inf/NaN in the real code)."""
    def __init__(s, **kw):
        SymFP.__init__(s, strict=True); s.div_obl = []; s.real_model = True; s.abs_uf = kw.get('abs_uf', False)
    def fabs(s, a):
        # abs_uf: |a| as a fresh symbol with its complete definition (t >= 0, t = a or t = -a by the sign of a) instead of an ite, so that
        # products of absolute values stay monomials whose sign z3's nonlinear core knows (C17-E4)
        if not s.abs_uf: return SymFP.fabs(s, a)
        a = z3.simplify(a); f = s.uf('fabs', 1); t = f(a)
        if s.reg(t): s.ax.append(t >= 0); s.ax.append(z3.Implies(a >= 0, t == a)); s.ax.append(z3.Implies(a <= 0, t == -a))
        return t
    def fmul(s, a, b): return z3.simplify(a * b)
    def fadd(s, a, b): return z3.simplify(a + b)
    def fdiv(s, a, b):
        a = z3.simplify(a); b = z3.simplify(b)
        cb = const_frac(b)
        if cb is None: s.div_obl.append(b != 0)
        elif cb == 0: s.div_obl.append(False); raise Abort('division by a literal zero (inf/NaN in the real code): the path ends here with a failed obligation')
        ca = const_frac(a)
        if ca is not None and ca == 0: return RV(0)
        return z3.simplify(a / b)
    def fun1(s, name, a):
        a = z3.simplify(a); f = s.uf(name, 1); t = f(a)
        if s.reg(t):
            if name == 'sqrt':
                s.ax.append(t >= 0); s.ax.append(z3.Implies(a >= 0, t * t == a))
            elif name == 'exp':
                s.ax.append(t > 0); s.ax.append(z3.Implies(a == 0, t == 1)); s.ax.append(z3.Implies(a < 0, t < 1)); s.ax.append(z3.Implies(a > 0, t > 1))
            elif name in ('log', 'log10'):
                s.ax.append(z3.Implies(a == 1, t == 0)); s.ax.append(z3.Implies(a > 1, t > 0)); s.ax.append(z3.Implies(z3.And(a > 0, a < 1), t < 0))
            elif name == 'floor': s.ax.append(t <= a); s.ax.append(t > a - 1)
            elif name == 'ceil': s.ax.append(t >= a); s.ax.append(t < a + 1)
        return t
    def fun2(s, name, a, b):
        a = z3.simplify(a); b = z3.simplify(b); f = s.uf(name, 2); t = f(a, b)
        if s.reg(t):
            if name == 'pow':
                s.ax.append(z3.Implies(a > 0, t > 0)); s.ax.append(z3.Implies(b == 0, t == 1)); s.ax.append(z3.Implies(a == 1, t == 1)); s.ax.append(z3.Implies(b == 1, t == a))
        return t
    def cmp(s, pr, a, b, tie_free=False): return SymFP.cmp(s, pr, a, b, False)

class ConcFP:
    """concrete binary64 domain: the same interpreter run on python floats (translation validation of Engine B)"""
    concrete = True
    def __init__(s): s.ax = []; s.side = []; s.tiny_sites = []; s.ties = []; s.exact_obl = []
    def const(s, x): return float(x)
    def from_int(s, v): return float(v)
    def neg(s, a): return -a
    def fmul(s, a, b): return a * b
    def fadd(s, a, b): return a + b
    def fsub(s, a, b): return a - b
    def fdiv(s, a, b):
        if b == 0: return math.nan if (a == 0 or a != a) else math.copysign(math.inf, a) * math.copysign(1.0, b)
        return a / b
    def fun1(s, name, a):
        try:
            if name == 'sqrt': return math.sqrt(a) if a >= 0 else math.nan
            return {'exp': math.exp, 'log': math.log, 'log10': math.log10, 'floor': math.floor, 'ceil': math.ceil}[name](a) * 1.0
        except (ValueError, OverflowError): return math.nan
    def fun2(s, name, a, b):
        try: return math.pow(a, b)
        except (ValueError, OverflowError, ZeroDivisionError): return math.nan
    def fabs(s, a): return abs(a)
    def fmin(s, a, b): return min(a, b)
    def fmax(s, a, b): return max(a, b)
    def select(s, c, a, b): return a if c else b
    def cmp(s, pr, a, b, tie_free=False):
        un = (a != a) or (b != b)
        if pr == 'ord': return not un
        if pr == 'uno': return un
        if pr == 'true': return True
        if pr == 'false': return False
        base = {'eq': a == b, 'ne': a != b, 'lt': a < b, 'le': a <= b, 'gt': a > b, 'ge': a >= b}[pr[1:]]
        if pr[0] == 'u': return True if un else base
        return False if un else (base if pr != 'one' else (a != b))

# ---------------------------------------------------------------- executor
ZERO = ('poly0',)

def bvsize(v): return v.size() if z3.is_bv(v) else None
def bv_bounds(v, depth=0):
    """sound syntactic bounds of the UNSIGNED value of a bit-vector term"""
    n = v.size(); full = (0, 2 ** n - 1)
    if z3.is_bv_value(v): return (v.as_long(), v.as_long())
    if depth > 6 or not z3.is_app(v): return full
    k = v.decl().kind(); ch = v.children()
    if k == z3.Z3_OP_CONCAT:
        j = 0
        while j < len(ch) - 1 and z3.is_bv_value(ch[j]) and ch[j].as_long() == 0: j += 1
        if j == len(ch) - 1: return bv_bounds(ch[j], depth + 1)
        low = sum(c.size() for c in ch[j:]); return (0, 2 ** low - 1)
    if k == z3.Z3_OP_EXTRACT: return (0, 2 ** n - 1)
    if k == z3.Z3_OP_ZERO_EXT: return bv_bounds(ch[0], depth + 1)
    if k == z3.Z3_OP_ITE:
        a, b = bv_bounds(ch[1], depth + 1), bv_bounds(ch[2], depth + 1); return (min(a[0], b[0]), max(a[1], b[1]))
    if k == z3.Z3_OP_BAND:
        m_ = min((c.as_long() for c in ch if z3.is_bv_value(c)), default=None)
        if m_ is not None: return (0, m_)
    if k in (z3.Z3_OP_BUREM, z3.Z3_OP_BUREM_I) and z3.is_bv_value(ch[1]) and ch[1].as_long() > 0: return (0, ch[1].as_long() - 1)
    return full

class Exec:
    def __init__(s, m, fp, solver=None, tie_free=False, indirect=None, stubs=None, maxsteps=200000, nondet_values=None):
        s.m = m; s.fp = fp; s.solver = solver; s.tie_free = tie_free
        s.fp.ties = []
        s.fcache = {}; s.mem = {}; s.nobj = 0; s.globals = {}
        s.decisions = []; s.dpos = 0; s.pending = []; s.pc = []
        s.naxioms = 0; s.obligations = []; s.errors = 0; s.steps = 0; s.maxsteps = maxsteps
        s.indirect = indirect or {}; s.stubs = stubs or {}
        s.nondet = []; s.nondet_values = nondet_values; s.nnd = 0
        s.assumed = []; s.calls = []; s.store_log = None; s.solver_timeout_ms = 30000; s.deadline = None
    def func(s, name):
        if name not in s.fcache: s.fcache[name] = Func(s.m, name)
        return s.fcache[name]
    def alloc(s, size=None):
        s.nobj += 1; s.mem[s.nobj] = {'cells': {}, 'zero': [], 'size': size}; return (s.nobj, 0)
    # ------------- memory
    def _cells(s, ptr):
        if ptr[0] == 0: raise Unsupported('null dereference')
        return s.mem[ptr[0]]
    def store(s, ptr, ty, v):
        ty = s.m.resolve(ty)
        if isinstance(ty, StructT):
            for k, e in enumerate(ty.els): s.store((ptr[0], ptr[1] + s.m.field_off(ty, k)), e, v[1][k])
            return
        if isinstance(ty, ArrT):
            for k in range(ty.n): s.store((ptr[0], ptr[1] + k * s.m.size(ty.el)), ty.el, v[1][k])
            return
        o = s._cells(ptr); off = ptr[1]; sz = s.m.size(ty)
        if s.store_log is not None: s.store_log.append((ptr[0], off, sz))
        if isinstance(off, int):
            for k in list(o['cells']):
                ck = o['cells'].get(k)
                if ck is None: continue
                if (k != off or ck[1] != sz) and k < off + sz and off < k + ck[1]:
                    v0 = ck[0]
                    if not isinstance(v0, (tuple, float)) and v0 is not ZERO and not (z3.is_expr(v0) and z3.is_real(v0)) and ck[1] <= 16:
                        # partially overwritten integer cell: keep its other bytes (split into byte cells first)
                        del o['cells'][k]
                        for j in range(ck[1]):
                            if off <= k + j < off + sz: continue
                            if isinstance(v0, (int, bool)) and not z3.is_expr(v0): bj = (int(v0) >> (8 * j)) & 0xff
                            else: bj = z3.simplify(z3.Extract(8 * j + 7, 8 * j, s.bv(v0, 8 * ck[1])))
                            o['cells'][k + j] = (bj, 1)
                    else:
                        del o['cells'][k]       # overlapping older non-integer cell is dropped; a later load of it is an error
            o['cells'][off] = (v, sz)
        else:
            cands = [k for k, c in o['cells'].items() if c[1] == sz]
            if not cands: raise Unsupported('symbolic store into object without cells of size %d' % sz)
            s.obligations.append(('in-bounds store', z3.Or([off == k for k in cands])))
            for k in cands:
                old = o['cells'][k][0]
                o['cells'][k] = (s.ite(off == k, v, s.dflt(old, ty)), sz)
    def dflt(s, v, ty):
        if v is ZERO:
            ty = s.m.resolve(ty)
            if isinstance(ty, DblT): return s.fp.const(0.0)
            if isinstance(ty, PtrT): return (0, 0)
            return 0
        return v
    def ite(s, c, a, b):
        if isinstance(c, bool): return a if c else b
        if isinstance(a, tuple) or isinstance(b, tuple):
            if a == b: return a
            raise Unsupported('ite over pointers')
        if isinstance(a, int) and isinstance(b, int) and a == b: return a
        if isinstance(a, float) or isinstance(b, float): return a if c else b
        if z3.is_bv(a) or z3.is_bv(b):
            w = bvsize(a) or bvsize(b)
            return z3.simplify(z3.If(c, s.bv(a, w), s.bv(b, w)))
        if z3.is_bool(a) or z3.is_bool(b) or isinstance(a, bool) or isinstance(b, bool):
            return z3.simplify(z3.If(c, s.tobool(a), s.tobool(b)))
        if isinstance(a, int) and isinstance(b, int): raise Unsupported('ite over untyped ints')
        return z3.simplify(z3.If(c, a, b))
    def load(s, ptr, ty):
        ty = s.m.resolve(ty)
        if isinstance(ty, StructT): return ('agg', [s.load((ptr[0], ptr[1] + s.m.field_off(ty, k)), e) for k, e in enumerate(ty.els)])
        if isinstance(ty, ArrT): return ('agg', [s.load((ptr[0], ptr[1] + k * s.m.size(ty.el)), ty.el) for k in range(ty.n)])
        o = s._cells(ptr); off = ptr[1]; sz = s.m.size(ty)
        if isinstance(off, int):
            if o.get('heap') and isinstance(o.get('size'), int) and s.solver is not None and (off < 0 or off + sz > o['size']):
                # concrete out-of-bounds access of a heap/stack object of known size: a failed obligation on this path (not a tool limitation)
                s.obligations.append(('in-bounds load (object of %d bytes, offset %d, %d bytes read)' % (o['size'], off, sz), False)); raise Abort('out-of-bounds load')
            c = o['cells'].get(off)
            if c is None:
                for (lo, hi) in o['zero']:
                    if lo <= off and off + sz <= hi: return s.dflt(ZERO, ty)
                if isinstance(ty, IntT):
                    # load from the middle of a wider integer cell
                    for k0, c0 in o['cells'].items():
                        if k0 < off and off + sz <= k0 + c0[1] and not isinstance(c0[0], (tuple, float)) and c0[0] is not ZERO and not (z3.is_expr(c0[0]) and z3.is_real(c0[0])):
                            sh_ = 8 * (off - k0)
                            if isinstance(c0[0], (int, bool)) and not z3.is_expr(c0[0]): return (int(c0[0]) >> sh_) & ((1 << ty.bits) - 1)
                            return z3.simplify(z3.Extract(sh_ + ty.bits - 1, sh_, s.bv(c0[0], 8 * c0[1])))
                raise Unsupported('load of uninitialised/untracked memory obj %d off %d (%r)' % (ptr[0], off, ty))
            if c[1] != sz:
                if c[0] is ZERO: return s.dflt(ZERO, ty)
                if isinstance(ty, IntT) and c[1] < sz:
                    # a wide integer load over several narrower integer cells (clang merges adjacent bool/byte stores): little-endian concat
                    parts = []; o2 = off
                    while o2 < off + sz:
                        cc = o['cells'].get(o2)
                        if cc is None or isinstance(cc[0], (tuple, float)) or cc[0] is ZERO or (z3.is_expr(cc[0]) and z3.is_real(cc[0])): parts = None; break
                        parts.append(cc); o2 += cc[1]
                    if parts is not None and o2 == off + sz:
                        if all(isinstance(p_[0], (int, bool)) and not z3.is_expr(p_[0]) for p_ in parts):
                            r = 0; sh_ = 0
                            for p_ in parts: r |= (int(p_[0]) & ((1 << (8 * p_[1])) - 1)) << sh_; sh_ += 8 * p_[1]
                            return r & ((1 << ty.bits) - 1)
                        bvs = [s.bv(p_[0] if not z3.is_bool(p_[0]) and not isinstance(p_[0], bool) else p_[0], 8 * p_[1]) for p_ in parts]
                        r = z3.simplify(z3.Concat(*reversed(bvs))) if len(bvs) > 1 else bvs[0]
                        if ty.bits < r.size(): r = z3.simplify(z3.Extract(ty.bits - 1, 0, r))
                        return r
                if isinstance(ty, IntT) and c[1] > sz and not isinstance(c[0], (tuple, float)) and c[0] is not ZERO and not (z3.is_expr(c[0]) and z3.is_real(c[0])):
                    # narrow integer load from the low bytes of a wider integer cell
                    if isinstance(c[0], (int, bool)) and not z3.is_expr(c[0]): return int(c[0]) & ((1 << ty.bits) - 1)
                    return z3.simplify(z3.Extract(ty.bits - 1, 0, s.bv(c[0], 8 * c[1])))
                raise Unsupported('load size mismatch obj %d off %d (cell %d bytes, load %d bytes)' % (ptr[0], off, c[1], sz))
            return s.retype(s.dflt(c[0], ty), ty)
        cands = [k for k, c in o['cells'].items() if c[1] == sz]
        if not cands: raise Unsupported('symbolic load from object without cells')
        s.obligations.append(('in-bounds load', z3.Or([off == k for k in cands])))
        cands.sort()
        if isinstance(ty, PtrT) and s.solver is not None:
            # pointers cannot be merged into an ite: fork the path on the (few) feasible offsets instead
            for k in cands:
                if s.branch(off == k): return s.retype(s.dflt(o['cells'][k][0], ty), ty)
            raise Abort('out-of-bounds pointer load (the in-bounds obligation recorded above fails on this path)')
        r = s.retype(s.dflt(o['cells'][cands[-1]][0], ty), ty)
        for k in reversed(cands[:-1]): r = s.ite(off == k, s.retype(s.dflt(o['cells'][k][0], ty), ty), r)
        return r
    def retype(s, v, ty):
        """value stored as one scalar kind and loaded as another of the same size (memcpy'd bit patterns)"""
        if isinstance(ty, DblT) and (isinstance(v, int) or z3.is_bv(v)):
            if isinstance(v, int): return s.fp.const(struct.unpack('<d', struct.pack('<Q', v & (2**64 - 1)))[0])
            raise Unsupported('symbolic integer reinterpreted as double')
        if isinstance(ty, IntT) and ty.bits == 64 and (isinstance(v, float) or (z3.is_expr(v) and z3.is_real(v))):
            if isinstance(v, float): return struct.unpack('<q', struct.pack('<d', v))[0]
            fr = const_frac(v)
            if fr is not None and Fraction(float(fr)) == fr: return struct.unpack('<q', struct.pack('<d', float(fr)))[0]
            raise Unsupported('symbolic double reinterpreted as integer')
        return v
    def memcpy(s, d, sr, n):
        if not isinstance(n, int): raise Unsupported('symbolic memcpy size')
        src = s._cells(sr); dst = s._cells(d)
        if not isinstance(sr[1], int) or not isinstance(d[1], int): raise Unsupported('symbolic memcpy pointer')
        for off in list(dst['cells']):
            if d[1] <= off < d[1] + n: del dst['cells'][off]
        new = {}
        for off, c in src['cells'].items():
            if sr[1] <= off and off + c[1] <= sr[1] + n: new[d[1] + off - sr[1]] = c
        for (lo, hi) in src['zero']:
            l2, h2 = max(lo, sr[1]), min(hi, sr[1] + n)
            if l2 < h2: dst['zero'].append((d[1] + l2 - sr[1], d[1] + h2 - sr[1]))
        dst['cells'].update(new)
    def memset(s, d, val, n):
        if not isinstance(n, int) or not isinstance(d[1], int): raise Unsupported('symbolic memset')
        if val != 0: raise Unsupported('memset non-zero')
        o = s._cells(d)
        for off in list(o['cells']):
            if d[1] <= off < d[1] + n: del o['cells'][off]
        o['zero'].append((d[1], d[1] + n))
    def global_obj(s, name):
        if name in s.globals: return s.globals[name]
        init = s.m.globals[name]
        mm = re.search(r'(?:constant|global) (.*?)(?:, comdat)?(?:, align \d+)?$', init)
        p = P(tokenize(mm.group(1))); ty = p.type()
        ptr = s.alloc(s.m.size(ty)); s.globals[name] = ptr
        if p.peek() is None: s.mem[ptr[0]]['zero'].append((0, s.m.size(ty))); return ptr
        v = operand(p, ty)
        s.init_store(ptr, ty, v)
        return ptr
    def init_store(s, ptr, ty, v):
        t = s.m.resolve(ty)
        if v[0] in ('zero', 'undef'):
            s.mem[ptr[0]]['zero'].append((ptr[1], ptr[1] + s.m.size(t))); return
        if v[0] == 'carr':
            for k, e in enumerate(v[1]): s.init_store((ptr[0], ptr[1] + k * s.m.size(t.el)), t.el, e)
        elif v[0] == 'cstruct':
            for k, (e, et) in enumerate(zip(v[1], t.els)): s.init_store((ptr[0], ptr[1] + s.m.field_off(t, k)), et, e)
        elif v[0] == 'cstr':
            raw = v[1][2:-1]; k = 0; off = ptr[1]
            while k < len(raw):
                if raw[k] == '\\': b = int(raw[k + 1:k + 3], 16); k += 3
                else: b = ord(raw[k]); k += 1
                s.mem[ptr[0]]['cells'][off] = (b, 1); off += 1
        elif v[0] == 'int': s.mem[ptr[0]]['cells'][ptr[1]] = (s.wrap(v[1], t.bits), s.m.size(t))
        elif v[0] == 'dbl': s.mem[ptr[0]]['cells'][ptr[1]] = (s.fp.const(v[1]), 8)
        elif v[0] == 'glob': s.mem[ptr[0]]['cells'][ptr[1]] = (s.globval(v[1]), 8)
        elif v[0] == 'cgep': s.mem[ptr[0]]['cells'][ptr[1]] = (s.const_gep(v), 8)
        else: raise Unsupported('global init %r' % (v,))
    def globval(s, name):
        if name in s.m.funcs or name in s.m.decls_all: return ('fn', name)
        return s.global_obj(name)
    def const_gep(s, o):
        base = s.globval(o[2][1]) if o[2][0] == 'glob' else None
        if base is None: raise Unsupported('cgep base')
        off = 0; t = o[1]
        for k, io in enumerate(o[3]):
            iv = io[1] if io[0] == 'int' else 0
            if k == 0: off += iv * s.m.size(t)
            else:
                t = s.m.resolve(t)
                if isinstance(t, StructT): off += s.m.field_off(t, iv); t = t.els[iv]
                else: off += iv * s.m.size(t.el); t = t.el
        return (base[0], base[1] + off)
    # ------------- ints
    def wrap(s, v, bits):
        v &= (1 << bits) - 1
        return v
    def sgn(s, v, bits):
        v &= (1 << bits) - 1
        return v - (1 << bits) if v >> (bits - 1) else v
    def bv(s, v, bits):
        if z3.is_bv(v):
            if v.size() != bits: raise Unsupported('bv width %d vs %d' % (v.size(), bits))
            return v
        if isinstance(v, bool): return z3.BitVecVal(int(v), bits)
        if z3.is_bool(v): return z3.If(v, z3.BitVecVal(1, bits), z3.BitVecVal(0, bits))
        return z3.BitVecVal(v & ((1 << bits) - 1), bits)
    def tobool(s, v):
        if isinstance(v, bool): return z3.BoolVal(v)
        if isinstance(v, int): return z3.BoolVal(bool(v & 1))
        if z3.is_bool(v): return v
        if z3.is_bv(v): return v == z3.BitVecVal(1, v.size())
        raise Unsupported('tobool %r' % (v,))
    # ------------- branching
    def flush_axioms(s):
        ax = s.fp.ax
        while s.naxioms < len(ax):
            s.solver.add(ax[s.naxioms]); s.naxioms += 1
    def feasible(s, c):
        s.flush_axioms()
        s.solver.push(); s.solver.add(c); r = zcheck(s.solver, s.solver_timeout_ms); s.solver.pop()
        s.nqueries = getattr(s, 'nqueries', 0) + 1
        return r != z3.unsat
    def branch(s, c):
        """c: z3 Bool or python bool -> python bool decision (DFS by re-execution)"""
        if isinstance(c, (bool, int)): return bool(c)
        c = z3.simplify(c)
        if z3.is_true(c): return True
        if z3.is_false(c): return False
        if s.dpos < len(s.decisions):
            d = s.decisions[s.dpos]; s.dpos += 1
        else:
            ft = s.feasible(c); ff = s.feasible(z3.Not(c))
            if ft and ff:
                d = True; s.pending.append(s.decisions[:s.dpos] + [False])
            elif ft: d = True
            elif ff: d = False
            else: raise PathEnd()
            s.decisions.append(d); s.dpos += 1
        s.solver.add(c if d else z3.Not(c)); s.pc.append(c if d else z3.Not(c))
        return d
    def concretize(s, v):
        """if the path condition (plus axioms) allows exactly one value for the bit-vector v, return it as a python int"""
        k = v.get_id(); memo = s.__dict__.setdefault('conc_memo', {})
        if k in memo: return memo[k][0]
        s.flush_axioms(); res = v
        s.solver.push(); r = zcheck(s.solver, 5000)
        if r == z3.sat:
            v0 = s.solver.model().eval(v, model_completion=True); s.solver.pop()
            if z3.is_bv_value(v0) and not s.feasible(v != v0): res = v0.as_long()
        else: s.solver.pop()
        memo[k] = (res, v)
        return res
    def assume(s, c):
        if isinstance(c, (bool, int)):
            if not c: raise Abort('assume(false)')
            return
        c = z3.simplify(c)
        if z3.is_false(c): raise Abort('assume(false)')
        s.solver.add(c); s.pc.append(c); s.assumed.append(c)

def run_function(E, fname, args, depth=0):
    m = E.m; F = E.func(fname); fp = E.fp
    if depth > 200: raise Unsupported('recursion too deep')
    regs = {}
    for (ty, nm, bv_), a in zip(F.params, args):
        if bv_ is not None:
            p = E.alloc(m.size(bv_)); E.memcpy(p, a, m.size(bv_)); a = p
        regs[nm] = a
    def val(o, ty=None):
        k = o[0]
        if k == 'reg': return regs[o[1]]
        if k == 'int':
            t = m.resolve(ty) if ty is not None else None
            if isinstance(t, IntT): return bool(o[1] & 1) if t.bits == 1 else E.wrap(o[1], t.bits)
            return o[1]
        if k == 'dbl': return fp.const(o[1])
        if k == 'zero' or k == 'undef':
            t = m.resolve(ty) if ty is not None else None
            if isinstance(t, DblT): return fp.const(0.0)
            if isinstance(t, PtrT): return (0, 0)
            if isinstance(t, IntT) and t.bits == 1: return False
            if isinstance(t, StructT): return ('agg', [val(('zero',), e) for e in t.els])
            if isinstance(t, ArrT): return ('agg', [val(('zero',), t.el) for _ in range(t.n)])
            return 0
        if k == 'glob': return E.globval(o[1])
        if k == 'cgep': return E.const_gep(o)
        raise Unsupported('val %r' % (o,))
    def gep(bt, base, idx):
        off = 0; t = bt; sym = None
        for k, (it, io) in enumerate(idx):
            iv = val(io, it)
            if k == 0: stride = m.size(t)
            else:
                t = m.resolve(t)
                if isinstance(t, StructT):
                    off += m.field_off(t, iv); t = t.els[iv]; continue
                elif isinstance(t, ArrT): stride = m.size(t.el); t = t.el
                else: raise Unsupported('gep into %r' % t)
            if not isinstance(iv, int) and E.solver is not None and z3.is_bv(iv):
                iv = E.concretize(iv)          # a symbolic index that the path condition pins to ONE value is used as that value
            if isinstance(iv, int):
                bits = m.resolve(it).bits if it is not None else 64
                off += E.sgn(iv, bits) * stride
            else:
                w = iv.size()
                iv64 = z3.SignExt(64 - w, iv) if w < 64 else iv
                term = iv64 * z3.BitVecVal(stride, 64)
                sym = term if sym is None else sym + term
        if base[0] == 'fn': raise Unsupported('gep on function pointer')
        boff = base[1]
        if sym is None and isinstance(boff, int): return (base[0], boff + off)
        tot = (sym if sym is not None else z3.BitVecVal(0, 64)) + (z3.BitVecVal(off, 64)) + (boff if not isinstance(boff, int) else z3.BitVecVal(boff, 64))
        tot = z3.simplify(tot)
        if z3.is_bv_value(tot): return (base[0], tot.as_signed_long())
        return (base[0], tot)
    def isint(v): return isinstance(v, int) and not isinstance(v, bool)
    cur = F.entry; prev = None
    while True:
        blk = F.blocks[cur]
        newv = {}
        for i in blk:
            if i.op != 'phi': break
            for (v, l) in i.inc:
                if l == prev: newv[i.dest] = val(v, i.ty); break
            else: raise Unsupported('phi no pred %s %s' % (prev, i))
        regs.update(newv)
        for i in blk:
            op = i.op
            if op == 'phi': continue
            E.steps += 1
            if E.steps > E.maxsteps: raise LoopBound('step budget %d exceeded in %s' % (E.maxsteps, fname))
            if E.deadline is not None and (E.steps & 255) == 0 and time.time() > E.deadline: raise Unsupported('harness time budget exceeded during symbolic execution')
            if op == 'alloca': regs[i.dest] = E.alloc(m.size(i.ty))
            elif op == 'load':
                p = val(i.a)
                if p[0] == 'fn': raise Unsupported('load from function')
                regs[i.dest] = E.load(p, i.ty)
            elif op == 'store': E.store(val(i.a), i.ty, val(i.v, i.ty))
            elif op == 'getelementptr': regs[i.dest] = gep(i.bt, val(i.base), i.idx)
            elif op in ('ptrtoint', 'inttoptr', 'fpext', 'fptrunc', 'freeze'): regs[i.dest] = val(i.a, getattr(i, 'ft', getattr(i, 'ty', None)))
            elif op == 'bitcast':
                v = val(i.a, i.ft); ft = m.resolve(i.ft); tt = m.resolve(i.tt)
                if isinstance(ft, DblT) != isinstance(tt, DblT) and not isinstance(ft, PtrT): v = E.retype(v, tt)
                regs[i.dest] = v
            elif op in ('zext', 'sext', 'trunc'):
                v = val(i.a, i.ft); fb = m.resolve(i.ft).bits; tb = m.resolve(i.tt).bits
                if isinstance(v, bool): v = int(v) if op != 'sext' else (-1 if v else 0)
                if isint(v):
                    if op == 'zext': v = v & ((1 << fb) - 1)
                    elif op == 'sext': v = E.wrap(E.sgn(v, fb), tb)
                    else: v = v & ((1 << tb) - 1)
                    regs[i.dest] = bool(v & 1) if tb == 1 else v
                elif z3.is_bool(v):
                    if op == 'trunc': regs[i.dest] = v
                    else: regs[i.dest] = z3.If(v, z3.BitVecVal((1 << tb) - 1 if op == 'sext' else 1, tb), z3.BitVecVal(0, tb))
                else:
                    if op == 'zext': r = z3.ZeroExt(tb - fb, v)
                    elif op == 'sext': r = z3.SignExt(tb - fb, v)
                    else: r = z3.Extract(tb - 1, 0, v)
                    r = z3.simplify(r)
                    if tb == 1: r = z3.simplify(r == z3.BitVecVal(1, 1))
                    regs[i.dest] = r
            elif op in ('sitofp', 'uitofp'):
                v = val(i.a, i.ft); fb = m.resolve(i.ft).bits
                if isinstance(v, bool): v = int(v)
                if z3.is_bool(v): regs[i.dest] = fp.select(v, fp.const(1.0), fp.const(0.0))
                elif isint(v):
                    iv = E.sgn(v, fb) if op == 'sitofp' else (v & ((1 << fb) - 1))
                    if abs(iv) >= 2**53 and (abs(iv) & (abs(iv) - 1)): iv = int(float(iv))   # correctly rounded (python int->float is RNE)
                    regs[i.dest] = fp.from_int(iv)
                else:
                    # symbolic integer -> double: exact below 2^53 (side condition recorded as an obligation)
                    # symbolic integer -> double: UF i2d, exact below 2^53, monotone, sign-preserving
                    iv = z3.BV2Int(v, is_signed=(op == 'sitofp'))
                    if getattr(fp, 'exact_add', False):
                        bb_ = bv_bounds(v)
                        if op == 'sitofp' and bb_[1] >= 2 ** (v.size() - 1): bb_ = None
                        if bb_ is not None: fp.setb(iv, bb_[0], bb_[1])
                        E.obligations.append(('int->double exact (|v| <= 2^53)', True if (bb_ is not None and bb_[1] <= 2**53) else z3.And(iv <= 2**53, iv >= -2**53)))
                        regs[i.dest] = fp.mk_dy(iv, 0); continue
                    f = fp.uf_i2d(); t = f(iv)
                    fp.ax.append(z3.Implies(z3.And(iv <= 2**53, iv >= -2**53), t == z3.ToReal(iv)))
                    fp.ax.append(z3.Implies(iv >= 0, t >= 0)); fp.ax.append(z3.Implies(iv <= 0, t <= 0))
                    fp.ax.append(z3.Implies(iv >= 2**53, t >= 2**53))
                    regs[i.dest] = t
            elif op in ('fptosi', 'fptoui'):
                v = val(i.a, i.ft); tb = m.resolve(i.tt).bits
                if isinstance(v, float): regs[i.dest] = E.wrap(int(v), tb) if v == v and abs(v) < 2**70 else 0
                else:
                    fr = const_frac(v)
                    if fr is not None: regs[i.dest] = E.wrap(int(fr), tb)
                    else:
                        # truncation toward zero of a symbolic real, as Int -> BV (range obligation)
                        # truncation toward zero; out-of-range conversion is undefined in C: the result is then an unconstrained fresh value
                        iv = z3.If(v >= 0, z3.ToInt(v), -z3.ToInt(-v))
                        lim = 2**(tb - 1) if op == 'fptosi' else 2**tb
                        memo = E.__dict__.setdefault('f2i_memo', {}); vs_ = z3.simplify(v); E.__dict__.setdefault('f2i_keep', []).append(vs_); mk = (vs_.get_id(), op, tb)
                        if mk not in memo:      # functional: the same real value converts to the same integer
                            r = z3.BitVec('f2i_%d' % len(memo), tb)
                            inr = z3.And(iv < lim, iv >= (-lim if op == 'fptosi' else 0))
                            fp.ax.append(z3.Implies(inr, z3.BV2Int(r, is_signed=(op == 'fptosi')) == iv))
                            memo[mk] = (r, v)
                        regs[i.dest] = memo[mk][0]
            elif op in ('fadd', 'fsub', 'fmul', 'fdiv'):
                a = val(i.a, i.ty); b = val(i.b, i.ty)
                regs[i.dest] = {'fadd': fp.fadd, 'fsub': fp.fsub, 'fmul': fp.fmul, 'fdiv': fp.fdiv}[op](a, b)
            elif op == 'fneg': regs[i.dest] = fp.neg(val(i.a, i.ty))
            elif op == 'fcmp': regs[i.dest] = fp.cmp(i.pred, val(i.a, i.ty), val(i.b, i.ty), E.tie_free)
            elif op == 'icmp':
                a = val(i.a, i.ty); b = val(i.b, i.ty); t = m.resolve(i.ty)
                if isinstance(a, tuple) or isinstance(b, tuple):
                    if (z3.is_bv(a) and isinstance(b, tuple) and b[0] == 0 and isinstance(b[1], int)) or (z3.is_bv(b) and isinstance(a, tuple) and a[0] == 0 and isinstance(a[1], int)):
                        # an uninitialised pointer slot (symbolic word) compared with a null-based constant: plain integer comparison
                        bvv, kk = (a, b[1]) if z3.is_bv(a) else (b, a[1])
                        if i.pred in ('eq', 'ne'):
                            r_ = z3.simplify(bvv == kk) if i.pred == 'eq' else z3.simplify(bvv != kk)
                            regs[i.dest] = True if z3.is_true(r_) else False if z3.is_false(r_) else r_
                            continue
                    if isinstance(a, int): a = (0, a)
                    if isinstance(b, int): b = (0, b)
                    if not (isinstance(a[1], int) and isinstance(b[1], int)):
                        if a[0] != b[0]: regs[i.dest] = (i.pred == 'ne')
                        else: raise Unsupported('symbolic pointer compare')
                    elif i.pred in ('eq', 'ne'): regs[i.dest] = (a == b) if i.pred == 'eq' else (a != b)
                    elif a[0] == b[0]: regs[i.dest] = {'ult': a[1] < b[1], 'ule': a[1] <= b[1], 'ugt': a[1] > b[1], 'uge': a[1] >= b[1]}[i.pred]
                    else: raise Unsupported('pointer order compare across objects')
                    continue
                bits = t.bits
                if bits == 1 and not (isint(a) and isint(b)):
                    A = E.tobool(a); B = E.tobool(b)
                    regs[i.dest] = z3.simplify({'eq': A == B, 'ne': A != B}[i.pred]) if i.pred in ('eq', 'ne') else None
                    if regs[i.dest] is None: raise Unsupported('i1 ordered compare')
                    if z3.is_true(regs[i.dest]): regs[i.dest] = True
                    elif z3.is_false(regs[i.dest]): regs[i.dest] = False
                    continue
                if isinstance(a, bool): a = int(a)
                if isinstance(b, bool): b = int(b)
                if isint(a) and isint(b):
                    ua, ub = a & ((1 << bits) - 1), b & ((1 << bits) - 1); sa, sb = E.sgn(a, bits), E.sgn(b, bits)
                    regs[i.dest] = {'eq': ua == ub, 'ne': ua != ub, 'slt': sa < sb, 'sle': sa <= sb, 'sgt': sa > sb, 'sge': sa >= sb,
                                    'ult': ua < ub, 'ule': ua <= ub, 'ugt': ua > ub, 'uge': ua >= ub}[i.pred]
                else:
                    A = E.bv(a, bits); B = E.bv(b, bits)
                    r = {'eq': A == B, 'ne': A != B, 'slt': A < B, 'sle': A <= B, 'sgt': A > B, 'sge': A >= B,
                         'ult': z3.ULT(A, B), 'ule': z3.ULE(A, B), 'ugt': z3.UGT(A, B), 'uge': z3.UGE(A, B)}[i.pred]
                    r = z3.simplify(r)
                    regs[i.dest] = True if z3.is_true(r) else False if z3.is_false(r) else r
            elif op in ('add', 'sub', 'mul', 'and', 'or', 'xor', 'shl', 'lshr', 'ashr', 'sdiv', 'udiv', 'srem', 'urem'):
                a = val(i.a, i.ty); b = val(i.b, i.ty); bits = m.resolve(i.ty).bits
                if isinstance(a, tuple) or isinstance(b, tuple):
                    # integer arithmetic on pointer values (ptrtoint): differences within one object, pointer +/- integer
                    if op == 'sub' and isinstance(a, tuple) and isinstance(b, tuple) and a[0] == b[0] and a[0] != 'fn' and isinstance(a[1], int) and isinstance(b[1], int): regs[i.dest] = (a[1] - b[1]) & ((1 << bits) - 1)
                    elif op in ('add', 'sub') and isinstance(a, tuple) and isint(b) and isinstance(a[1], int): regs[i.dest] = (a[0], a[1] + (E.sgn(b, bits) if op == 'add' else -E.sgn(b, bits)))
                    elif op == 'add' and isinstance(b, tuple) and isint(a) and isinstance(b[1], int): regs[i.dest] = (b[0], b[1] + E.sgn(a, bits))
                    else: raise Unsupported('integer arithmetic %s on pointers' % op)
                    continue
                if bits == 1:
                    if isinstance(a, (bool, int)) and isinstance(b, (bool, int)) and not z3.is_expr(a) and not z3.is_expr(b):
                        A, B = bool(a), bool(b)
                        regs[i.dest] = {'and': A and B, 'or': A or B, 'xor': A != B, 'add': A != B, 'sub': A != B, 'mul': A and B}[op]
                    else:
                        A = E.tobool(a); B = E.tobool(b)
                        r = z3.simplify({'and': z3.And(A, B), 'or': z3.Or(A, B), 'xor': z3.Xor(A, B), 'add': z3.Xor(A, B), 'sub': z3.Xor(A, B), 'mul': z3.And(A, B)}[op])
                        regs[i.dest] = True if z3.is_true(r) else False if z3.is_false(r) else r
                elif isint(a) and isint(b):
                    M = (1 << bits) - 1; sg = lambda x: E.sgn(x, bits)
                    if op in ('sdiv', 'udiv', 'srem', 'urem') and (b & M) == 0: raise Abort('division by zero (UB)')
                    def tdiv(x, y): q = abs(x) // abs(y); return q if (x < 0) == (y < 0) else -q
                    r = {'add': lambda: a + b, 'sub': lambda: a - b, 'mul': lambda: a * b, 'and': lambda: a & b, 'or': lambda: a | b, 'xor': lambda: a ^ b,
                         'shl': lambda: a << (b & M) if (b & M) < bits else 0, 'lshr': lambda: (a & M) >> (b & M) if (b & M) < bits else 0, 'ashr': lambda: sg(a) >> min(b & M, bits - 1),
                         'sdiv': lambda: tdiv(sg(a), sg(b)), 'udiv': lambda: (a & M) // (b & M),
                         'srem': lambda: sg(a) - sg(b) * tdiv(sg(a), sg(b)), 'urem': lambda: (a & M) % (b & M)}[op]()
                    regs[i.dest] = r & M
                else:
                    A = E.bv(a, bits); B = E.bv(b, bits)
                    if op in ('sdiv', 'srem') and isint(b) and 0 < E.sgn(b, bits) and (b & (b - 1)) == 0 and E.solver is not None:
                        # signed division by a positive power of two of a provably non-negative value == unsigned (solver-checked, then z3 folds it to extract/shift)
                        if getattr(E, 'nn_fail', 0) < 4:
                            E.solver.push(); E.solver.set('timeout', 3000); E.solver.add(A < 0); r_ = zcheck(E.solver, 4000); E.solver.pop(); E.solver.set('timeout', E.solver_timeout_ms)
                            if r_ == z3.unsat: op = 'udiv' if op == 'sdiv' else 'urem'
                            else: E.nn_fail = getattr(E, 'nn_fail', 0) + 1     # helper query undecided or the value can be negative: keep the signed operation (and stop asking after 4 such answers)
                    if op in ('udiv', 'urem', 'sdiv', 'srem') and not isint(b): E.obligations.append(('division by zero', B != 0))
                    if op in ('sdiv', 'srem') and isint(b) and 1 < E.sgn(b, bits) and (b & (b - 1)) == 0:
                        # signed division by 2^k of a value whose sign is unknown: shift form (round toward zero) instead of a divider circuit
                        k_ = E.sgn(b, bits).bit_length() - 1
                        bias = z3.LShR(A >> (bits - 1), bits - k_); q_ = (A + bias) >> k_
                        r = z3.simplify(q_ if op == 'sdiv' else A - (q_ << k_))
                        regs[i.dest] = r.as_long() if z3.is_bv_value(r) else r
                        continue
                    if op in ('udiv', 'urem', 'sdiv', 'srem') and isint(b) and not isint(a) and E.solver is not None and getattr(fp, 'ax', None) is not None:
                        sgnd = op in ('sdiv', 'srem'); Cv = E.sgn(b, bits) if sgnd else (b & ((1 << bits) - 1)); aC = abs(Cv)
                        if aC >= 3 and (aC & (aC - 1)) != 0:
                            # division by a constant that is not a power of two: definitional encoding A == q*C + r with the Euclidean side
                            # conditions (exact in Z: no-overflow predicates), instead of a bit-blasted divider circuit
                            E.ndivc = getattr(E, 'ndivc', 0) + 1
                            q = z3.BitVec('divq!%d' % E.ndivc, bits); rr = z3.BitVec('divr!%d' % E.ndivc, bits); Cb = z3.BitVecVal(Cv, bits)
                            fp.ax.append(A == q * Cb + rr)
                            fp.ax.append(z3.BVMulNoOverflow(q, Cb, sgnd)); fp.ax.append(z3.BVAddNoOverflow(q * Cb, rr, sgnd))
                            if sgnd:
                                fp.ax.append(z3.BVMulNoUnderflow(q, Cb)); fp.ax.append(z3.BVAddNoUnderflow(q * Cb, rr))
                                fp.ax.append(z3.If(A >= 0, z3.And(rr >= 0, rr < aC), z3.And(rr <= 0, rr > -aC)))
                            else: fp.ax.append(z3.ULT(rr, Cb))
                            fp.keep.extend([q, rr])
                            regs[i.dest] = q if op in ('sdiv', 'udiv') else rr
                            continue
                    r = {'add': lambda: A + B, 'sub': lambda: A - B, 'mul': lambda: A * B, 'and': lambda: A & B, 'or': lambda: A | B, 'xor': lambda: A ^ B,
                         'shl': lambda: A << B, 'lshr': lambda: z3.LShR(A, B), 'ashr': lambda: A >> B, 'sdiv': lambda: A / B, 'udiv': lambda: z3.UDiv(A, B),
                         'srem': lambda: z3.SRem(A, B), 'urem': lambda: z3.URem(A, B)}[op]()
                    r = z3.simplify(r)
                    regs[i.dest] = r.as_long() if z3.is_bv_value(r) else r
            elif op == 'select':
                c = val(i.c, IntT(1)); a = val(i.a, i.ty); b = val(i.b, i.ty); t = m.resolve(i.ty)
                if isinstance(c, (bool, int)) and not z3.is_expr(c): regs[i.dest] = a if c else b
                elif isinstance(t, DblT): regs[i.dest] = fp.select(c, a, b)
                elif isinstance(t, IntT):
                    if t.bits == 1:
                        r = z3.simplify(z3.If(c, E.tobool(a), E.tobool(b))); regs[i.dest] = True if z3.is_true(r) else False if z3.is_false(r) else r
                    else:
                        r = z3.simplify(z3.If(c, E.bv(a, t.bits), E.bv(b, t.bits))); regs[i.dest] = r.as_long() if z3.is_bv_value(r) else r
                elif a == b: regs[i.dest] = a
                else: regs[i.dest] = a if E.branch(c) else b      # pointer select on a symbolic condition: fork
            elif op == 'jmp': prev, cur = cur, i.to; break
            elif op == 'br':
                c = val(i.c, IntT(1))
                d = bool(c) if isinstance(c, (bool, int)) and not z3.is_expr(c) else E.branch(E.tobool(c))
                prev, cur = cur, (i.t if d else i.f); break
            elif op == 'switch':
                v = val(i.v, i.ty); bits = m.resolve(i.ty).bits; tgt = None
                if isint(v) or isinstance(v, bool):
                    v = int(v); tgt = i.default
                    for cv, l in i.cases:
                        if (cv - v) & ((1 << bits) - 1) == 0: tgt = l; break
                else:
                    for cv, l in i.cases:
                        if E.branch(v == z3.BitVecVal(cv, bits)): tgt = l; break
                    if tgt is None: tgt = i.default
                prev, cur = cur, tgt; break
            elif op == 'ret':
                if getattr(E, 'trace_regs', None) is not None: E.trace_regs.append((fname, dict(regs)))
                return val(i.v, i.ty) if i.v is not None else None
            elif op == 'unreachable' or op == 'landingpad': raise Abort('unreachable')
            elif op == 'fence': pass
            elif op == 'extractvalue':
                v = val(i.a, i.ty)
                for k in i.idx: v = v[1][k]
                regs[i.dest] = v
            elif op == 'insertvalue':
                def ins(agg, idx, v):
                    if agg[0] != 'agg': raise Unsupported('insertvalue')
                    l = list(agg[1]); l[idx[0]] = v if len(idx) == 1 else ins(l[idx[0]], idx[1:], v); return ('agg', l)
                regs[i.dest] = ins(val(i.a, i.ty), i.idx, val(i.v, i.vt))
            elif op in ('cmpxchg', 'atomicrmw'):
                # single-threaded semantics (Engine B never runs concurrent code)
                p = val(i.a); old = E.load(p, i.ty)
                if op == 'cmpxchg':
                    bits = m.resolve(i.ty).bits; c = val(i.cmp, i.ty); n = val(i.new, i.ty)
                    if isint(old) and isint(c): ok = (old == c)
                    else: ok = E.branch(E.bv(old, bits) == E.bv(c, bits))
                    if ok: E.store(p, i.ty, n)
                    regs[i.dest] = ('agg', [old, ok])
                else:
                    bits = m.resolve(i.ty).bits; v = val(i.v, i.ty)
                    if isint(old) and isint(v): nv = {'add': old + v, 'sub': old - v, 'and': old & v, 'or': old | v, 'xor': old ^ v, 'xchg': v}[i.rmw] & ((1 << bits) - 1)
                    else:
                        A, B = E.bv(old, bits), E.bv(v, bits); nv = z3.simplify({'add': A + B, 'sub': A - B, 'and': A & B, 'or': A | B, 'xor': A ^ B, 'xchg': B}[i.rmw])
                    E.store(p, i.ty, nv); regs[i.dest] = old
            elif op == 'call':
                cal = i.callee
                if cal[0] == 'glob': nm = cal[1]
                else:
                    fv = val(cal)
                    if not (isinstance(fv, tuple) and fv[0] == 'fn'): raise Unsupported('indirect call through non-function value in %s' % fname)
                    nm = fv[1]
                nm = E.stubs.get(nm, nm) if isinstance(E.stubs.get(nm), str) else nm
                av = [val(a, t) for (t, a, bv_) in i.args]
                r = call(E, nm, av, i, depth, fname)
                if i.dest is not None: regs[i.dest] = r
                if i.normal is not None:
                    prev, cur = cur, i.normal; break
            else: raise Unsupported('op %s' % op)
        else:
            raise Unsupported('fell off block')

def call(E, nm, av, i, depth, caller):
    fp = E.fp; m = E.m
    if nm in E.stubs and callable(E.stubs[nm]): return E.stubs[nm](E, av)
    for key, fn in E.stubs.items():
        # pattern hooks ('~substring'): called before the real function; may add stated assumptions; CALL_REAL continues into the real body
        if key[0] == '~' and key[1:] in nm and callable(fn):
            r = fn(E, nm, av)
            if r is not CALL_REAL: return r
    if nm.startswith('@llvm.lifetime') or nm.startswith('@llvm.dbg') or nm.startswith('@llvm.experimental.noalias') or nm == '@llvm.assume' or nm.startswith('@llvm.invariant'): return None
    if nm == '@__verif_check':
        c = av[0]
        if isinstance(c, int) and not isinstance(c, bool): c = bool(c & 1)
        E.ncheck = getattr(E, 'ncheck', 0) + 1
        E.obligations.append(('verif_check #%d' % E.ncheck, c)); return None
    if nm == '@__CPROVER_assume':
        c = av[0]
        if isinstance(c, int) and not isinstance(c, bool): c = (c != 0)
        elif z3.is_bv(c): c = (c != 0)
        # assumptions are NOT retroactive: obligations recorded before this point are decided now, under the path condition they were
        # recorded in (otherwise `check(x); assume(x);` would discharge itself)
        if E.solver is not None and E.obligations and not (isinstance(c, bool) and c) and not (z3.is_expr(c) and z3.is_true(z3.simplify(c))): seal_obligations(E)
        E.assume(c); return None
    if nm == '@__verif_error_hook': E.errors += 1; return None
    if nm.startswith('@nondet_') and nm not in m.funcs:
        rt = m.resolve(i.rty); k = E.nnd; E.nnd += 1
        if E.nondet_values is not None:
            w = E.nondet_values[k] if k < len(E.nondet_values) else 0
            if isinstance(rt, DblT): v = fp.const(struct.unpack('<d', struct.pack('<Q', w))[0])
            else: v = w & ((1 << rt.bits) - 1)
        else:
            if isinstance(rt, DblT): v = z3.Real('nd%d' % k)
            else: v = z3.BitVec('nd%d' % k, rt.bits)
        E.nondet.append((k, 'd' if isinstance(rt, DblT) else 'i%d' % rt.bits, v))
        return v
    if nm == '@__verif_mark':
        E.marks = getattr(E, 'marks', []) + [av[0]]
        E.mark_pos = getattr(E, 'mark_pos', []) + [len(E.store_log) if E.store_log is not None else 0]
        return None
    if nm == '@__verif_dyadic':
        # nondeterministic double that is an integer multiple of 2^-q in [0, bound*2^-q): value = n / 2^q with n a z3 Int
        q, bound = av[0], av[1]; k = E.nnd; E.nnd += 1
        if E.nondet_values is not None:
            w = E.nondet_values[k] if k < len(E.nondet_values) else 0
            d = struct.unpack('<d', struct.pack('<Q', w))[0]
            if not (d >= 0 and d * 2.0**q < bound and (d * 2.0**q) == int(d * 2.0**q)): raise Abort('assume(false)')
            E.nondet.append((k, 'd', d)); return fp.const(d)
        n = z3.Int('ndq%d' % k); E.assume(z3.And(n >= 0, n < bound))
        E.assume(n <= bound - 1)
        if getattr(fp, 'exact_add', False) and isinstance(bound, int): fp.setb(n, 0, bound - 1)
        v = fp.mk_dy(n, q) if getattr(fp, 'exact_add', False) else z3.ToReal(n) / RV(2**q)
        E.nondet.append((k, 'd', v)); E.dyadic_ints = getattr(E, 'dyadic_ints', []) + [n]
        return v
    if nm == '@__verif_fork_u':
        lo, hi = av[0], av[1]; k = E.nnd; E.nnd += 1
        if E.nondet_values is not None:
            v = E.nondet_values[k] if k < len(E.nondet_values) else lo
            if not (lo <= v <= hi): raise Abort('assume(false)')
            E.nondet.append((k, 'i64', v)); return v
        sym = z3.BitVec('nd%d' % k, 64); E.assume(z3.And(z3.UGE(sym, lo), z3.ULE(sym, hi)))
        r = hi
        for v in range(lo, hi):
            if E.branch(sym == v): r = v; break
        else: E.assume(sym == hi)
        E.nondet.append((k, 'i64', sym)); return r
    if nm.startswith('@llvm.memset'): E.memset(av[0], av[1], av[2]); return None
    if nm.startswith('@llvm.memcpy') or nm.startswith('@llvm.memmove') or nm in ('@memcpy', '@memmove'): E.memcpy(av[0], av[1], av[2]); return None
    if nm == '@llvm.fabs.f64' or nm == '@fabs': return fp.fabs(av[0])
    if nm in ('@sqrt', '@llvm.sqrt.f64'): return fp.fun1('sqrt', av[0])
    if nm in ('@exp', '@llvm.exp.f64'): return fp.fun1('exp', av[0])
    if nm in ('@log', '@llvm.log.f64'): return fp.fun1('log', av[0])
    if nm in ('@log10', '@llvm.log10.f64'): return fp.fun1('log10', av[0])
    if nm in ('@floor', '@llvm.floor.f64'): return fp.fun1('floor', av[0])
    if nm in ('@ceil', '@llvm.ceil.f64'): return fp.fun1('ceil', av[0])
    if nm in ('@pow', '@llvm.pow.f64'): return fp.fun2('pow', av[0], av[1])
    if nm in ('@llvm.maxnum.f64', '@fmax'): return fp.fmax(av[0], av[1])
    if nm in ('@llvm.minnum.f64', '@fmin'): return fp.fmin(av[0], av[1])
    mm = re.match(r'@llvm\.(u|s)(max|min)\.i(\d+)', nm)
    if mm:
        bits = int(mm.group(3)); a, b = av
        if isinstance(a, int) and isinstance(b, int):
            ka = E.sgn(a, bits) if mm.group(1) == 's' else a & ((1 << bits) - 1); kb = E.sgn(b, bits) if mm.group(1) == 's' else b & ((1 << bits) - 1)
            return a if ((ka >= kb) == (mm.group(2) == 'max')) else b
        A, B = E.bv(a, bits), E.bv(b, bits)
        c = (A >= B if mm.group(1) == 's' else z3.UGE(A, B)) if mm.group(2) == 'max' else (A <= B if mm.group(1) == 's' else z3.ULE(A, B))
        return z3.simplify(z3.If(c, A, B))
    mm = re.match(r'@llvm\.ctpop\.i(\d+)', nm)
    if mm:
        bits = int(mm.group(1)); a = av[0]
        if isinstance(a, int): return bin(a & ((1 << bits) - 1)).count('1')
        A = E.bv(a, bits); r = z3.BitVecVal(0, bits)
        for k in range(bits): r = r + z3.ZeroExt(bits - 1, z3.Extract(k, k, A))
        return z3.simplify(r)
    mm = re.match(r'@llvm\.(ctlz|cttz)\.i(\d+)', nm)
    if mm:
        bits = int(mm.group(2)); a = av[0]
        if not isinstance(a, int): raise Unsupported('symbolic ' + nm)
        a &= (1 << bits) - 1
        if a == 0: return bits
        if mm.group(1) == 'ctlz': return bits - a.bit_length()
        return (a & -a).bit_length() - 1
    mm = re.match(r'@llvm\.(u|s)(mul|add|sub)\.with\.overflow\.i(\d+)', nm)
    if mm:
        bits = int(mm.group(3)); a, b = av
        if isinstance(a, int) and isinstance(b, int):
            if mm.group(1) == 'u': ua, ub = a & ((1 << bits) - 1), b & ((1 << bits) - 1)
            else: ua, ub = E.sgn(a, bits), E.sgn(b, bits)
            r = {'mul': ua * ub, 'add': ua + ub, 'sub': ua - ub}[mm.group(2)]
            lo, hi = (0, (1 << bits) - 1) if mm.group(1) == 'u' else (-(1 << (bits - 1)), (1 << (bits - 1)) - 1)
            return ('agg', [r & ((1 << bits) - 1), not (lo <= r <= hi)])
        raise Unsupported('symbolic ' + nm)
    if nm in ('@_Znwm', '@_Znam', '@malloc'):
        p_ = E.alloc(av[0] if isinstance(av[0], int) else None); E.mem[p_[0]]['heap'] = True; return p_
    if nm in ('@_ZdlPv', '@_ZdaPv', '@free'): return None
    if nm in m.funcs:
        E.calls.append(nm)
        return run_function(E, nm, av, depth + 1)
    raise Unsupported('call to external %s (from %s) without stub' % (nm, caller))

# ---------------------------------------------------------------- exploration
class PathResult:
    pass

def explore(m, fname, fp_factory, setup=None, on_path=None, tie_free=False, indirect=None, stubs=None, maxpaths=20000, maxsteps=200000, timeout=None, solver_timeout_ms=30000, args=None,
            initial_work=None, stop_when_pending=None, log_stores=False):
    """DFS over branch decisions by re-execution.  on_path(E, ret, status) is called per completed path with the path's solver loaded.
    initial_work: list of decision prefixes to start from; stop_when_pending: breadth-first seeding phase, returns the unexplored prefixes in stats['remaining']"""
    work = [list(w) for w in initial_work] if initial_work is not None else [[]]
    n = 0; stats = {'paths': 0, 'aborted': 0, 'infeasible': 0, 'loopbound': 0, 'queries': 0, 'remaining': []}
    t0 = time.time()
    while work:
        if stop_when_pending and len(work) >= stop_when_pending: stats['remaining'] = work; break
        dec = work.pop(0) if stop_when_pending else work.pop()
        solver = z3.Solver(); solver.set('timeout', solver_timeout_ms)
        fp = fp_factory()
        E = Exec(m, fp, solver, tie_free=tie_free, indirect=indirect, stubs=stubs, maxsteps=maxsteps); E.decisions = list(dec)
        E.solver_timeout_ms = solver_timeout_ms; E.deadline = (t0 + timeout) if timeout else None
        if log_stores: E.store_log = []
        a = setup(E) if setup else (args or [])
        try:
            ret = run_function(E, fname, a)
            stats['paths'] += 1
            if on_path: on_path(E, ret, 'ok')
        except Abort as ab:
            stats['aborted'] += 1
            if on_path: on_path(E, None, 'abort:' + str(ab))
        except PathEnd:
            stats['infeasible'] += 1
        except LoopBound as lb:
            stats['loopbound'] += 1
            if on_path: on_path(E, None, 'loopbound')
        stats['queries'] += getattr(E, 'nqueries', 0)
        work.extend(E.pending)
        n += 1
        if n > maxpaths: raise Unsupported('more than %d paths' % maxpaths)
        if timeout and time.time() - t0 > timeout: raise Unsupported('exploration timeout %ds after %d paths' % (timeout, n))
    return stats

def cutpoints(a, b, limit=64):
    """structural diff of two terms: descend through the common skeleton (same function symbol, same arity) and return the
    pairs of sub-terms where they first differ (cut points, as in combinational equivalence checking)"""
    out = []; seen = set(); stack = [(a, b)]
    while stack and len(out) < limit:
        x, y = stack.pop()
        if x.get_id() == y.get_id(): continue
        k = (x.get_id(), y.get_id())
        if k in seen: continue
        seen.add(k)
        if z3.is_app(x) and z3.is_app(y) and x.num_args() > 0 and x.num_args() == y.num_args() and x.decl().eq(y.decl()) and x.sort().eq(y.sort()):
            for cx, cy in zip(x.children(), y.children()): stack.append((cx, cy))
        elif x.sort().eq(y.sort()): out.append((x, y))
    return out

def dag_size(t, cap):
    seen = set(); stack = [t]
    while stack and len(seen) < cap:
        x = stack.pop()
        if x.get_id() in seen: continue
        seen.add(x.get_id())
        if z3.is_app(x): stack.extend(x.children())
    return len(seen)

def eq_atoms(c, limit=200):
    out = []; seen = set(); stack = [c]
    while stack and len(out) < limit:
        t = stack.pop()
        if t.get_id() in seen: continue
        seen.add(t.get_id())
        if z3.is_app(t):
            if t.decl().kind() in (z3.Z3_OP_EQ, z3.Z3_OP_DISTINCT) and t.num_args() == 2 and not z3.is_bool(t.arg(0)): out.append((t.arg(0), t.arg(1)))
            else: stack.extend(t.children())
    return out

def cutpoint_candidate(E, c, timeout_ms=15000):
    """the main query did not finish: look for an input on which a cut point of the compared terms differs (cheap query);
    the result is only a CANDIDATE - the native replay decides whether the real outputs differ"""
    for (a, b) in eq_atoms(c):
        for (x, y) in cutpoints(a, b):
            if x.get_id() == a.get_id() and y.get_id() == b.get_id(): continue     # no common skeleton: nothing gained
            E.solver.push(); E.solver.set('timeout', timeout_ms); E.solver.add(x != y)
            r = zcheck(E.solver, timeout_ms); mdl = E.solver.model() if r == z3.sat else None
            E.solver.pop()
            if mdl is not None: return mdl
    return None

def nlsat_check(E, timeout_ms=60000):
    """real-model fallback: every uninterpreted application (sqrt/exp/pow of a given argument term) is replaced by one fresh real
    per distinct term (an over-approximation: only functional consistency across different argument terms is lost; the ground
    axioms about each application are kept) and the pure QF_NRA problem is decided by z3's nlsat.  unsat carries over; a model is a candidate."""
    cache = {}; n = [0]
    def ab(t):
        k = t.get_id()
        if k in cache: return cache[k][0]
        if z3.is_app(t) and t.num_args() > 0:
            ch = [ab(c) for c in t.children()]
            if t.decl().kind() == z3.Z3_OP_UNINTERPRETED: r = z3.Real('uf!%d' % n[0]); n[0] += 1
            else: r = t.decl()(*ch)
        else: r = t
        cache[k] = (r, t); return r
    s2 = z3.Tactic('qfnra-nlsat').solver(); s2.set('timeout', timeout_ms)
    for a in E.solver.assertions(): s2.add(ab(a))
    r = zcheck(s2, timeout_ms)
    return r, (s2.model() if r == z3.sat else None)

def decide(E, ms):
    """one query on E.solver (with the real-model fallback); returns (verdict, model)"""
    real = getattr(E.fp, 'real_model', False)
    r = zcheck(E.solver, min(ms, 8000) if real else ms)
    if r == z3.sat: return r, E.solver.model()
    if r == z3.unknown and real: return nlsat_check(E, ms)
    return r, None

def tiny_extra(E):
    """stated exclusion: quantities guarded by +DBL_MIN are not within 2^-940 of zero (inputs may be exactly zero)"""
    if not getattr(E.fp, 'tiny_sites', None): return None
    BIG = RV(Fraction(1, 2**940))
    return z3.And([(z3.Or(x >= BIG, x <= -BIG) if contains_uf(x) else z3.Or(x == 0, x >= BIG, x <= -BIG)) for x in E.fp.tiny_sites])

def seal_obligations(E):
    """decide the obligations recorded so far under the CURRENT path condition and set them aside"""
    res = check_obligations(E, tiny_extra(E))
    E.sealed = getattr(E, 'sealed', []) + res; E.obligations = []
    if hasattr(E, '_path_model'): del E._path_model

def check_obligations(E, extra_assume=None):
    """decide every obligation recorded on this path: returns list of (name, verdict, model_or_None)"""
    out = []; n_unknown = 0
    E.flush_axioms()
    # fast path: decide the conjunction of all obligations of this path in ONE query; only if that fails are they decided one by one
    sym = []
    for name, c in E.obligations:
        if isinstance(c, bool) or (isinstance(c, int) and not z3.is_expr(c)):
            if not c: sym = None; break
            continue
        cc = z3.simplify(E.tobool(c))
        if z3.is_false(cc): sym = None; break
        if not z3.is_true(cc): sym.append(cc)
    if sym is not None and len(sym) > 3:
        t0 = time.time()
        E.solver.push(); E.solver.add(z3.Not(z3.And(sym)))
        if extra_assume is not None: E.solver.add(extra_assume)
        r, _m = decide(E, E.solver_timeout_ms); E.nqueries = getattr(E, 'nqueries', 0) + 1
        E.solver.pop()
        if r == z3.unsat:
            dt = (time.time() - t0) / max(len(E.obligations), 1)
            return [(name, 'discharged', None, dt) for name, c in E.obligations]
    for name, c in E.obligations:
        if n_unknown >= 3:
            # the solver is not getting anywhere on this path: do not burn the full timeout on every remaining obligation
            if not (isinstance(c, bool) or (isinstance(c, int) and not z3.is_expr(c))):
                cc = z3.simplify(E.tobool(c))
                if z3.is_true(cc): out.append((name, 'discharged', None, 0.0)); continue
                mdl = cutpoint_candidate(E, cc, 3000) if name.startswith('verif_check') else None
                out.append((name, 'candidate' if mdl is not None else 'unknown', mdl, 0.0)); continue
        if isinstance(c, bool) or (isinstance(c, int) and not z3.is_expr(c)):
            if c: out.append((name, 'discharged', None, 0.0)); continue
            # the obligation is literally false on this path: any input that drives the real code down this path is a counterexample
            if not hasattr(E, '_path_model'):
                E.flush_axioms(); r_ = zcheck(E.solver, E.solver_timeout_ms); E._path_model = E.solver.model() if r_ == z3.sat else None
            out.append((name, 'candidate', E._path_model, 0.0)); continue
        c = E.tobool(c)
        t0 = time.time()
        c = z3.simplify(c)
        if z3.is_true(c): out.append((name, 'discharged', None, 0.0)); continue
        if dag_size(c, 4000) >= 4000:
            # very large compared terms: look for an input at a cut point first (cheap); the expensive monolithic query only runs if none exists
            mdl = cutpoint_candidate(E, c)
            if mdl is not None: out.append((name, 'candidate', mdl, time.time() - t0)); continue
        E.solver.push(); E.solver.add(z3.Not(c))
        if extra_assume is not None: E.solver.add(extra_assume)
        E.flush_axioms()
        r, mdl_ = decide(E, E.solver_timeout_ms); E.nqueries = getattr(E, 'nqueries', 0) + 1
        if r == z3.unsat: out.append((name, 'discharged', None, time.time() - t0))
        elif r == z3.sat: out.append((name, 'candidate', mdl_, time.time() - t0))
        else:
            E.solver.pop()
            mdl = cutpoint_candidate(E, c) if getattr(E, 'use_cutpoints', True) else None
            if mdl is None: n_unknown += 1
            out.append((name, 'candidate' if mdl is not None else 'unknown', mdl, time.time() - t0)); continue
        E.solver.pop()
    return out

def model_words(E, mdl):
    """nondet values of a model as 64-bit words in call order (doubles rounded to nearest binary64)"""
    ws = []
    for k, kind, v in E.nondet:
        mv = mdl.eval(v, model_completion=True)
        if kind == 'd':
            fr = const_frac(mv)
            if fr is None:
                try: fr = Fraction(mv.approx(40).as_fraction()) if hasattr(mv, 'approx') else Fraction(0)
                except Exception: fr = Fraction(0)
            try: f = float(fr)
            except OverflowError: f = 1.7976931348623157e308 if fr > 0 else -1.7976931348623157e308
            ws.append(struct.unpack('<Q', struct.pack('<d', f))[0])
        else: ws.append(mv.as_long() if z3.is_bv_value(mv) else 0)
    return ws

def run_concrete(m, fname, words, stubs=None, maxsteps=2000000):
    """concrete run of the same interpreter (python floats): returns (status, obligations as bools)"""
    fp = ConcFP(); E = Exec(m, fp, None, nondet_values=list(words), stubs=stubs, maxsteps=maxsteps)
    def br(c): return bool(c)
    E.branch = br
    def asm(c):
        if not c: raise Abort('assume(false)')
    E.assume = asm
    try:
        ret = run_function(E, fname, [])
        return 'ok', ret, E
    except Abort as a: return 'abort:' + str(a), None, E
