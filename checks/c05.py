import os, sys
from vlib import *

NORMALS = {'xp': (1, 0, 0), 'xm': (-1, 0, 0), 'yp': (0, 1, 0), 'ym': (0, -1, 0), 'zp': (0, 0, 1), 'zm': (0, 0, -1)}
def ndefs(n): x, y, z = NORMALS[n]; return ['NX=%d.' % x, 'NY=%d.' % y, 'NZ=%d.' % z]

def hook_vacgen(E, nm, av):
    """stated exclusion on vacuum-generation paths: the two rarefaction-fan edges computed by the code are ordered, SL < SR
    (in exact arithmetic SR-SL = vdiff - 2/(g-1)*(aL+aR) >= 0 on this branch; only rounding at a near-tie can misorder them)"""
    import irz, ir
    this, uL, aL, uR, aR = av[0], av[2], av[4], av[6], av[8]
    ct = E.m.types['%class.HLLCRiemannSolver']
    tdgm1 = E.load((this[0], this[1] + E.m.field_off(ct, 2)), ir.DblT())
    SR = E.fp.fsub(uR, E.fp.fmul(tdgm1, aR)); SL = E.fp.fadd(uL, E.fp.fmul(tdgm1, aL))
    E.assume(SL < SR); E.exclusions = getattr(E, 'exclusions', 0) + 1
    return irz.CALL_REAL

def harnesses(tier):
    H = []
    normals = ['xp'] if tier == 'quick' else list(NORMALS)
    for n in normals:
        for case in ('NONVAC', 'VACL', 'VACR'):
            H.append(BHarness('S1_antisym_%s_%s' % (case.lower(), n), 'c05_hllc.cpp', 'h_s1_antisym', defs=ndefs(n) + ['CASE_' + case], noinline=True, tie_free=True, strict=True, split=4, timeout=1500, maxpaths=20000, stubs={'~sample_vacuum_generation': hook_vacgen},
                what='HLLC flux antisymmetry: F(R,L,-n) == -F(L,R,n) for mass, 3 momentum components and energy, on every tie-free feasible path pair (%s)' % {'NONVAC': 'both states non-vacuum, incl. vacuum generation', 'VACL': 'left state vacuum', 'VACR': 'right state vacuum'}[case],
                bound='gamma in (1.00000001,2], densities/pressures >= 0, velocities and face velocity arbitrary reals, normal = %s; loop-free; exclusions: ties of computed comparisons; computed quantities guarded by +DBL_MIN within 2^-940 of zero; rounded fan edges misordered (SL>=SR) on vacuum-generation paths; inputs are 0 or in [2^-100,2^100] in magnitude (no overflow/underflow)' % (NORMALS[n],)))
    for n in normals:
      for case in ('NONVAC', 'VACL', 'VACR'):
        H.append(BHarness('S2_galilean_%s%s' % (case.lower(), '' if n == 'xp' else '_' + n), 'c05_hllc.cpp', 'h_s2_galilean', defs=ndefs(n) + ['CASE_' + case], noinline=True, tie_free=True, strict=True, split=4, timeout=1500, maxpaths=20000, stubs={'~sample_vacuum_generation': hook_vacgen},
            what='HLLC Galilean boost: the flux through a face moving with velocity w equals the rest-frame flux (states boosted by -w, static face) transformed with m\'=m, p\'=p+m w, E\'=E+w.p+|w|^2 m/2, term by term (%s)' % case.lower(),
            bound='gamma in (1.00000001,2], densities/pressures >= 0, velocities and face velocity arbitrary reals in the stated domain, normal = %s; loop-free; ties excluded' % (NORMALS[n],)))
    for nm, entry, what in (('S3_vacuum_eq_exact', 'h_s3_hllc_eq_exact_vacuum', 'one-sided vacuum: HLLC samples the same state (flag, rho, u, P as terms) as the exact solver at x/t=0'),
                            ('S3_vacgen_eq_exact', 'h_s3_hllc_eq_exact_vacgen', 'vacuum generation: HLLC samples the same state as the exact solver at x/t=0')):
        H.append(BHarness(nm, 'c11_exact.cpp', entry, tie_free=True, strict=True, timeout=900, what=what, bound='gamma in (1.00000001,2]; rho,P,a in [2^-100,2^100], u zero or within that range; loop-free; ties excluded'))
    return H

def run(tier, only=None):
    ev = Evidence('C05', tier); work = Work('C05')
    ev.assumptions += ['IEEE-UF abstraction: doubles as reals, rounded ops uninterpreted with ground axioms A1-A5,A8,A9 (theorems of binary64 RNE on finite values); unsat => holds bit-for-bit',
                       'exclusions (stated, counted in evidence): ties of ordered comparisons on computed values; quantities guarded by +DBL_MIN assumed not within 2^-940 of zero; NaN/inf/overflow/underflow outside']
    ev.outside += ['S4 sampled rho,P >= 0 inside the vacuum fan: needs the real-number fact base>0 <=> SL>0 (near-tie in binary64), not term-decidable', 'Galilean boost invariance, identical-state analytic flux, textbook-HLLC equality, continuity across wave-direction changes, 1.5 c_s mirror clause: hold only up to round-off, not decidable at term level']
    try:
        tv_run_b(work, 'c05_hllc.cpp', [('tv_flux', 14)], ev, defs=ndefs('xp') + ['CASE_NONVAC'], nvec=200)
        hb = [h for h in harnesses(tier) if not only or h.name.startswith(only)]
        violations, broken = run_engine_b('C05', tier, hb, ev, work)
    except Broken as b:
        violations, broken = [], [str(b)]
    work.clean()
    finish(ev, violations, '; '.join(broken) if broken else None)

def replay(path): return generic_replay(path, harnesses('thorough'))
