import os, sys
from vlib import *

CTOR = '@_ZN19HydroDensitySubGridC2EPKd16CoordinateVectorIlE'
LAYOUTS_Q = [(1, 1, 1), (2, 1, 1), (1, 2, 1), (1, 1, 2), (2, 2, 2)]
LAYOUTS_T = LAYOUTS_Q + [(2, 2, 1), (3, 1, 1), (1, 3, 1), (1, 1, 3), (2, 1, 2), (1, 2, 2), (3, 2, 1), (3, 3, 1)]
def ldefs(l): return ['NX=%d' % l[0], 'NY=%d' % l[1], 'NZ=%d' % l[2]]

def harnesses(tier, skip_d2=True):
    H = []
    for l in (LAYOUTS_Q if tier == 'quick' else LAYOUTS_T):
        n = l[0] * l[1] * l[2]; tag = '%dx%dx%d' % l
        for pf in range(8):
            if tier == 'quick' and n >= 8 and pf not in (0, 7): continue      # the largest quick layout runs with none/all axes periodic only
            ptag = '%s_p%d%d%d' % (tag, (pf >> 2) & 1, (pf >> 1) & 1, pf & 1)
            common = dict(redirect={CTOR: '@stub_subgrid_ctor', '@_Znwm': '@stub_new'}, cflags=['-fopenmp'], native_replay=False, timeout=900, unwind=max(28, 18 * n + 2), mem_gb=24, witness=(pf in (0, 7)))
            H.append(AHarness('G1_graph_' + ptag, 'c07_graph.cpp', 'h_g1_graph', defs=ldefs(l) + ['PFLAGS=%d' % pf], **common,
                what='constructed hydro task graph (real make_hydro_tasks + set_dependencies + reset_hydro_tasks on sub-grids wired by the real create_subgrid), for a SYMBOLIC task t: <=7 children all live and exactly one layer down (gradient->limiter->predict->flux->update->primitive: acyclic), unfinished-parent counter == number of (parent,slot) entries pointing at t, start tasks are exactly the gradient sweeps, lock set == sub-grids touched with two DIFFERENT locks ordered by sub-grid index for pair tasks',
                bound='layout %s, periodicity (x,y,z)=%d%d%d (all 8 combinations are separate runs), probe task symbolic over all %d task slots' % (tag, (pf >> 2) & 1, (pf >> 1) & 1, pf & 1, 18 * n)))
            H.append(AHarness('G1_faces_' + ptag, 'c07_graph.cpp', 'h_g1_faces', defs=ldefs(l) + ['PFLAGS=%d' % pf], **common,
                what='every face of every sub-grid is covered exactly once per phase: positive face by the own pair/boundary task, negative face by a boundary task or by the lower neighbour\'s positive pair task', bound='layout %s, periodicity %d%d%d, symbolic sub-grid and axis' % (tag, (pf >> 2) & 1, (pf >> 1) & 1, pf & 1)))
    return H

def t3_harnesses(tier):
    H = []
    for l in (LAYOUTS_Q if tier == 'quick' else LAYOUTS_T):
        tag = '%dx%dx%d' % l
        H.append(AHarness('T3_wiring_' + tag, 'c07_graph.cpp', 'h_t3_wiring', defs=ldefs(l), redirect={CTOR: '@stub_subgrid_ctor', '@_Znwm': '@stub_new'}, cflags=['-fopenmp'], native_replay=False, timeout=900, unwind=30,
            what='DensitySubGridCreator::create_subgrid wiring: neighbour(g,c) == independent geometric reference (OUTSIDE exactly at non-periodic walls, wrap on periodic axes incl. axes with 1 or 2 sub-grids), mutual: ngb(ngb(g,c), o2i(c)) == g, direction 0 is self',
            bound='layout %s, symbolic sub-grid g, direction c in 0..26, symbolic periodicity flags' % tag))
    return H

COPYCTOR = '@_ZN19HydroDensitySubGridC2ERKS_'
FOLD = '@_ZN14DensitySubGrid18update_intensitiesERKS_'
def t4_harnesses(tier):
    H = []
    for l in ([(2, 1, 1)] if tier == 'quick' else [(2, 1, 1), (1, 2, 1), (1, 1, 2), (3, 1, 1)]):
        tag = '%dx%dx%d' % l; nsub = l[0] * l[1] * l[2]
        for code in range(3 ** nsub):
            lv = [(code // 3 ** i) % 3 for i in range(nsub)]
            if max(lv) == 0: continue
            H.append(AHarness('T4_copies_%s_L%s' % (tag, ''.join(map(str, lv))), 'c07_graph.cpp', 'h_t4_copies', defs=ldefs(l) + ['LEVELS=%d' % code], redirect={CTOR: '@stub_subgrid_ctor', '@_Znwm': '@stub_new_any', COPYCTOR: '@stub_subgrid_copy_ctor', FOLD: '@stub_update_intensities', '@_ZSt17__throw_bad_allocv': '@stub_throw0', '@_ZSt28__throw_bad_array_new_lengthv': '@stub_throw0', '@_ZSt20__throw_length_errorPKc': '@stub_throw1'},
                native_replay=False, timeout=900, unwind=30, witness=(code == 3 ** nsub - 1), noinline=True,
                what='DensitySubGridCreator::create_copies: 2^level - 1 copies per sub-grid, each copy knows its original, every neighbour of a copy is the true geometric neighbour or a copy of it (walls stay walls), originals keep their wiring; update_original_counters folds every copy into its own original exactly once',
                bound='layout %s, copy levels %s (every assignment in {0,1,2}^%d is a separate run), probe (sub-grid, copy, direction) and periodicity symbolic; vectors preallocated (no reallocation); sequential folding loop (no OpenMP)' % (tag, lv, nsub)))
    return H

def d2_known(work, ev, tier):
    """D2: pair task of a periodic axis with ONE sub-grid has the same lock twice (can never be locked)"""
    h = AHarness('G1_graph_D2_1x1x1', 'c07_graph.cpp', 'h_g1_graph', defs=ldefs((1, 1, 1)), redirect={CTOR: '@stub_subgrid_ctor', '@_Znwm': '@stub_new'}, cflags=['-fopenmp'], native_replay=False, timeout=900, unwind=28)
    lower(work, h); cf, mf, g = translate_harness(work, h)
    res = run_cbmc([cf, mf], unwind=28, timeout=900, mem_gb=30)
    base = {'wall_s': round(res.time, 1), 'rss_mb': res.rss_mb}
    what = 'the two locks of a pair task are different objects (layout 1x1x1, symbolic periodicity)'
    if res.status == 'success': ev.add(h.name, what, '1x1x1', 'discharged', res.solver_s, extra=base); return None
    if res.status != 'failed': ev.add(h.name, what, '', 'inconclusive', res.solver_s, extra=base); ev.notes.append('D2 query: cbmc ' + res.status); return None
    unw, povf, other = classify_failures(res)
    return (res, other, base, what, h)

def run(tier, only=None):
    ev = Evidence('C07', tier); work = Work('C07')
    ev.stubs += ['HydroDensitySubGrid constructor -> light initialiser (cell counts, lock, task slots); the neighbour table is written by the REAL create_subgrid loop']
    ev.assumptions += ['std::vector<HydroDensitySubGrid*> _subgrids given by its begin pointer (libstdc++ layout)', 'task vector large enough (18 slots per sub-grid): capacity exhaustion outside']
    ev.outside += ['3..16 threads and full task graphs under all interleavings (dynamic protocol: the lock-pair primitive L1 is included here, the other primitives are C08; the worker loop is inlined in a 1000-line function and is not encodable as a unit)', 'layouts beyond those listed', 'liveness under unbounded spinning']
    violations = []; broken = []
    try:
        import c08
        # the dynamic half of 'never two tasks on one sub-grid at a time': a pair task takes BOTH sub-grid locks or none, and a failed attempt leaves every lock as it found it (shared with C08)
        hs = [h for h in harnesses(tier) + [h for h in c08.harnesses(tier) if h.name == 'L1_lock_dependency'] if not only or h.name.startswith(only)]
        v, b = run_engine_a('C07', tier, hs, ev, work, workers=12); violations += v; broken += b
    except Broken as b:
        broken.append(str(b))
    work.clean()
    finish(ev, violations, '; '.join(broken) if broken else None)

def replay(path): print('C07 counterexamples are cbmc traces over the translated real code'); return 0
