"""Shared driver code: compile harness TUs to IR from /repo's current tree, translate, run cbmc/z3 with
budgets, translation validation, replay, known findings, evidence."""
import os, sys, re, json, time, subprocess, shutil, hashlib, tempfile, struct, resource
from concurrent.futures import ThreadPoolExecutor

VERIF = os.path.dirname(os.path.dirname(os.path.abspath(__file__)))
REPO = os.environ.get('VERIF_REPO', '/repo')
SRC = os.path.join(REPO, 'src')
sys.path.insert(0, os.path.join(VERIF, 'lib'))
import ir, irc

GUARD = 'CMACIONIZE_VERIF'

def cfg_dir():
    d = os.path.join(REPO, '_build', 'src')
    return d if os.path.exists(os.path.join(d, 'Configuration.hpp')) else os.path.join(VERIF, 'cfg')

def base_flags(std='c++11'):
    return ['-std=' + std, '-O1', '-fno-vectorize', '-fno-slp-vectorize', '-fno-unroll-loops', '-ffp-contract=off',
            '-fno-access-control', '-D' + GUARD, '-Wno-everything',
            '-include', os.path.join(VERIF, 'env', 'verif_env.hpp'),
            '-I/usr/include/hdf5/serial', '-I/usr/lib/x86_64-linux-gnu/openmpi/include',
            '-I', os.path.join(VERIF, 'env'), '-I', SRC, '-I', cfg_dir()]

class Broken(Exception):
    """the machinery (not the code under test) failed: never reported as a violation or as success"""

def sh(cmd, timeout=None, env=None, cwd=None, mem_gb=None):
    def lim():
        if mem_gb: resource.setrlimit(resource.RLIMIT_AS, (int(mem_gb * 2**30), int(mem_gb * 2**30)))
        os.setsid()
    t0 = time.time()
    p = subprocess.Popen(cmd, stdout=subprocess.PIPE, stderr=subprocess.PIPE, env=env, cwd=cwd, preexec_fn=lim)
    try:
        out, err = p.communicate(timeout=timeout)
        to = False
    except subprocess.TimeoutExpired:
        try: os.killpg(p.pid, 9)
        except Exception: pass
        out, err = p.communicate(); to = True
    return p.returncode, out.decode(errors='replace'), err.decode(errors='replace'), time.time() - t0, to

class Work:
    """scratch directory under /verif/.work/<id>, removed at the end of the run"""
    def __init__(s, pid):
        s.dir = os.path.join(VERIF, '.work', pid)
        shutil.rmtree(s.dir, ignore_errors=True); os.makedirs(s.dir)
    def path(s, *a): return os.path.join(s.dir, *a)
    def clean(s):
        if not os.environ.get('VERIF_KEEP'): shutil.rmtree(s.dir, ignore_errors=True)

def clang_ir(src, out, defs=(), noinline=False, inline_all=False, extra=(), std='c++11', pre_inc=()):
    cmd = ['clang++-14']
    for d in pre_inc: cmd += ['-I', d]
    cmd += base_flags(std) + ['-S', '-emit-llvm', src, '-o', out]
    for d in defs: cmd.append('-D' + d)
    if noinline: cmd.append('-fno-inline')
    if inline_all: cmd += ['-mllvm', '-inline-threshold=100000']
    cmd += list(extra)
    rc, o, e, dt, to = sh(cmd, timeout=300)
    if rc != 0: raise Broken('clang failed on %s:\n%s' % (src, e[-3000:]))
    return out

def native_build(src, out, defs=(), extra=(), std='c++11', cxx='g++', opt='-O2', pre_inc=(), objs=()):
    """the harness TU compiled natively against the REAL headers (replay / translation validation)"""
    fl = [f for f in base_flags(std) if f not in ('-fno-vectorize', '-fno-slp-vectorize', '-fno-unroll-loops', '-Wno-everything', '-O1')]
    cmd = [cxx]
    for d in pre_inc: cmd += ['-I', d]
    cmd += fl + ['-w', opt, '-fpermissive', src] + list(objs) + ['-o', out]
    for d in defs: cmd.append('-D' + d)
    cmd += list(extra)
    rc, o, e, dt, to = sh(cmd, timeout=600)
    if rc != 0: raise Broken('native build failed on %s:\n%s' % (src, e[-3000:]))
    return out

_rt_obj = {}
def native_rt_obj(work):
    o = work.path('native_rt.o')
    if not os.path.exists(o):
        rc, _, e, _, _ = sh(['gcc', '-O1', '-c', os.path.join(VERIF, 'env', 'native_rt.c'), '-o', o])
        if rc: raise Broken('native_rt: ' + e)
    return o

# ------------------------------------------------------------------ cbmc
CBMC_FLAGS = ['--unwinding-assertions', '--pointer-overflow-check', '--undefined-shift-check', '--signed-overflow-check',
              '--drop-unused-functions', '--no-malloc-may-fail', '--div-by-zero-check']

class CbmcResult:
    def __init__(s): s.status = None; s.failed = []; s.nprops = 0; s.nfail = 0; s.time = 0; s.rss_mb = 0; s.out = ''; s.vccs = 0; s.vccs_remaining = 0; s.nondet = []; s.solver_s = 0.0
    def __repr__(s): return 'Cbmc(%s %d/%d %.1fs %dMB)' % (s.status, s.nfail, s.nprops, s.time, s.rss_mb)

def run_cbmc(cfiles, unwind=None, unwindset=None, flags=None, extra=(), timeout=600, mem_gb=24, defs=(), prop=None, trace=True, backend=None, incdirs=()):
    cmd = ['/usr/bin/time', '-f', 'RSS_KB=%M', 'cbmc'] + list(cfiles)
    cmd += (CBMC_FLAGS if flags is None else list(flags))
    if unwind is not None: cmd += ['--unwind', str(unwind)]
    if unwindset: cmd += ['--unwindset', ','.join('%s:%d' % kv for kv in unwindset.items())]
    for d in defs: cmd += ['-D', d]
    for d in list(incdirs) + [os.path.join(VERIF, 'env')]: cmd += ['-I', d]
    if prop: cmd += ['--property', prop]
    if trace: cmd.append('--trace')
    cmd += ['--verbosity', '9']
    if backend == 'kissat': cmd += ['--external-sat-solver', 'kissat']
    elif backend == 'cadical': cmd += ['--sat-solver', 'cadical']
    elif backend in ('z3', 'cvc5'): cmd.append('--' + backend)
    cmd += list(extra)
    rc, out, err, dt, to = sh(cmd, timeout=timeout, mem_gb=mem_gb)
    r = CbmcResult(); r.time = dt; r.out = out; r.err = err; r.cmd = ' '.join(cmd)
    m = re.search(r'RSS_KB=(\d+)', err); r.rss_mb = int(m.group(1)) // 1024 if m else 0
    m = re.search(r'Generated (\d+) VCC\(s\), (\d+) remaining after simplification', out)
    if m: r.vccs, r.vccs_remaining = int(m.group(1)), int(m.group(2))
    for m in re.finditer(r'Runtime decision procedure: ([0-9.e+-]+)s', out): r.solver_s += float(m.group(1))
    m = re.search(r'(\d+) variables, (\d+) clauses', out); r.sat_vars, r.sat_clauses = (int(m.group(1)), int(m.group(2))) if m else (0, 0)
    m = re.search(r'size of program expression: (\d+) steps', out); r.steps = int(m.group(1)) if m else 0
    if to: r.status = 'timeout'; return r
    res = re.findall(r'^\[([^\]]+)\] (.*): (SUCCESS|FAILURE|UNKNOWN|ERROR)$', out, re.M)
    r.nprops = len(res); r.failed = [(pid, desc) for pid, desc, st in res if st != 'SUCCESS']; r.nfail = len(r.failed)
    r.all_props = res
    if 'VERIFICATION SUCCESSFUL' in out: r.status = 'success'
    elif 'VERIFICATION FAILED' in out: r.status = 'failed'
    else:
        r.status = 'error'
        if 'std::bad_alloc' in err or 'Out of memory' in err or 'out of memory' in out or rc in (-9, 137, 134): r.status = 'oom'
    # nondet values in call order (logged through verif_nd_* shims)
    r.traces = []
    for blk in re.split(r'^Trace for ', out, flags=re.M)[1:]:
        pid_ = blk.split(':', 1)[0].strip()
        ws = [int(m.group(2).replace(' ', ''), 2) for m in re.finditer(r'^\s*verif_nd_log(d?)=.*?\(([01 ]+)\)\s*$', blk, re.M)]
        r.traces.append((pid_, ws))
    r.nondet = r.traces[0][1] if r.traces else []
    return r

def classify_failures(res):
    """split cbmc failures into: unwinding (bound too small), pointer-overflow only, real assertion/bounds failures"""
    unwind = [f for f in res.failed if 'unwinding assertion' in f[1] or '.unwind.' in f[0] or 'recursion unwinding' in f[1]]
    povf = [f for f in res.failed if 'pointer_arithmetic' in f[0] or 'pointer arithmetic' in f[1] or 'pointer relation' in f[1]]
    other = [f for f in res.failed if f not in unwind and f not in povf]
    return unwind, povf, other

def write_main(path, entry, pre=''):
    open(path, 'w').write('''#include <stdint.h>
%s
void %s(void);
int main(void){ %s();
#ifdef WITNESS
  __CPROVER_assert(0, "witness: end of harness reachable");
#endif
  return 0; }
''' % (pre, entry, entry))

# ------------------------------------------------------------------ known findings
def load_known():
    p = os.path.join(VERIF, 'known_findings.json')
    if not os.path.exists(p): return {'known': [], 'fixed': []}
    return json.load(open(p))

def known_for(pid):
    return [k for k in load_known().get('known', []) if k['property'] == pid]

# ------------------------------------------------------------------ evidence
class Evidence:
    def __init__(s, pid, tier):
        s.pid = pid; s.tier = tier; s.t0 = time.time(); s.seed = int(os.environ.get('VERIF_SEED', '0') or 0)
        s.obligations = []      # dicts: harness, what, bound, verdict, solver_s
        s.functions = set(); s.assumptions = []; s.stubs = []; s.bounds = {}; s.outside = []
        s.queries = 0; s.discharged = 0; s.inconclusive = 0; s.nontrivial = 0; s.solver_s = 0.0; s.peak_rss_mb = 0
        s.witnesses = {}; s.tv = {'programs': 0, 'vectors': 0, 'mismatches': 0}; s.violations = []; s.known_hits = []; s.notes = []
        s.replays = 0
    def add(s, harness, what, bound, verdict, solver_s=0.0, nontrivial=1, extra=None):
        d = {'harness': harness, 'obligation': what, 'bound': bound, 'verdict': verdict, 'solver_s': round(solver_s, 3)}
        if extra: d.update(extra)
        s.obligations.append(d); s.queries += 1; s.solver_s += solver_s
        if verdict == 'discharged': s.discharged += 1; s.nontrivial += nontrivial
        elif verdict in ('inconclusive', 'timeout', 'oom'): s.inconclusive += 1
    def write(s):
        os.makedirs(os.path.join(VERIF, 'evidence'), exist_ok=True)
        samples = s.obligations[:12]
        ev = {'property_id': s.pid, 'tier': s.tier, 'seed': s.seed, 'level': 'model_checking',
              'coverage': {'evaluations': max(s.queries, 1), 'distinct_nontrivial': max(s.nontrivial, 0),
                           'rule': 'one evaluation = one solver query (a cbmc run over a translated harness, or one z3 check of a path obligation); '
                                   'distinct_nontrivial counts verification conditions / path obligations that remained after simplification and were discharged (unsat) by the solver',
                           'samples': samples, 'obligations': s.queries, 'discharged': s.discharged, 'inconclusive': s.inconclusive,
                           'functions_encoded': sorted(s.functions), 'bounds': s.bounds, 'stubs': s.stubs, 'outside_claim': s.outside,
                           'witnesses': s.witnesses, 'translation_validation': s.tv, 'solver_s': round(s.solver_s, 2), 'peak_rss_mb': s.peak_rss_mb,
                           'replays_against_real_code': s.replays, 'known_findings_hit': s.known_hits, 'notes': s.notes,
                           'all_obligations': s.obligations if len(s.obligations) <= 400 else s.obligations[:400],
                           'exhaustive': False},
              'assumptions': s.assumptions, 'wall_s': round(time.time() - s.t0, 2), 'violations': len(s.violations)}
        json.dump(ev, open(os.path.join(VERIF, 'evidence', s.pid + '.json'), 'w'), indent=1, default=str)
        return ev

def save_replay(pid, harness, payload):
    d = os.path.join(VERIF, 'replays', pid); os.makedirs(d, exist_ok=True)
    h = hashlib.sha1(json.dumps(payload, sort_keys=True, default=str).encode()).hexdigest()[:10]
    p = os.path.join(d, '%s-%s.json' % (harness, h)); json.dump(payload, open(p, 'w'), indent=1, default=str)
    return p

def finish(ev, violations, broken=None):
    """common exit protocol"""
    ev.violations = violations
    ev.write()
    for k in ev.known_hits: print('KNOWN-FINDING: property=%s %s' % (ev.pid, k))
    if broken:
        print('BROKEN-CHECK property=%s: %s' % (ev.pid, broken)); sys.exit(2)
    if violations:
        for v in violations: print('VIOLATION property=%s replay=%s' % (ev.pid, v))
        sys.exit(1)
    print('OK property=%s tier=%s queries=%d discharged=%d inconclusive=%d wall=%.1fs' % (ev.pid, ev.tier, ev.queries, ev.discharged, ev.inconclusive, time.time() - ev.t0))
    sys.exit(0)

# ------------------------------------------------------------------ Engine A harness runner
class AHarness:
    """one cbmc harness: entry function `entry` in harness TU `src` (C++ against the real headers)"""
    def __init__(s, name, src, entry, unwind=None, unwindset=None, defs=(), noinline=False, inline_all=False, redirect=None, allow_ext=(), indirect=None,
                 timeout=600, mem_gb=24, backend=None, flags=None, extra=(), what='', bound='', pre_inc=(), cflags=(), tiers=('quick', 'thorough'),
                 expect_cex=None, std='c++11', native_replay=True, extra_c=()):
        s.__dict__.update(locals()); del s.__dict__['s']

_ll_cache = {}
def lower(work, h):
    """clang -> IR -> C; cached per (src, defs, inline mode) within one run"""
    key = (h.src, tuple(h.defs), h.noinline, h.inline_all, tuple(h.pre_inc), tuple(h.cflags), h.std)
    if key not in _ll_cache:
        tag = hashlib.sha1(repr(key).encode()).hexdigest()[:8]
        ll = work.path('%s_%s.ll' % (os.path.basename(h.src).replace('.cpp', ''), tag))
        clang_ir(os.path.join(VERIF, 'harness', h.src), ll, defs=h.defs, noinline=h.noinline, inline_all=h.inline_all, pre_inc=h.pre_inc, extra=h.cflags, std=h.std)
        _ll_cache[key] = ll
    return _ll_cache[key]

def translate_harness(work, h):
    ll = lower(work, h)
    try:
        code, g = irc.translate(ll, ['@' + h.entry], redirect=h.redirect, allow_ext=h.allow_ext, indirect=h.indirect)
    except irc.Unencodable as e:
        raise Broken('%s: %s' % (h.name, e))
    cf = work.path(h.name + '.c'); open(cf, 'w').write(code)
    mf = work.path(h.name + '_main.c'); write_main(mf, h.entry)
    return cf, mf, g

def run_aharness(work, h, ev, witness=True):
    """returns (verdict, cbmc result, generator). verdict in discharged/failed/inconclusive"""
    cf, mf, g = translate_harness(work, h)
    files = [cf, mf] + [os.path.join(VERIF, 'harness', x) for x in h.extra_c]
    res = run_cbmc(files, unwind=h.unwind, unwindset=h.unwindset, flags=h.flags, extra=h.extra, timeout=h.timeout, mem_gb=h.mem_gb, backend=h.backend)
    wres = None
    if witness and res.status == 'success':
        wres = run_cbmc(files, unwind=h.unwind, unwindset=h.unwindset, flags=[f for f in (CBMC_FLAGS if h.flags is None else h.flags) if f != '--unwinding-assertions'], extra=h.extra,
                        timeout=h.timeout, mem_gb=h.mem_gb, defs=['WITNESS'], prop='main.assertion.1', trace=False, backend=h.backend)
    return res, wres, g

def nondet_file(work, name, words):
    p = work.path(name + '.replay.txt')
    open(p, 'w').write('\n'.join('%016x' % w for w in words) + '\n')
    return p

def native_replay(work, h, words, tag='cex'):
    """run the harness TU, compiled natively from the REAL sources, on the solver's nondet values.
    returns 'reproduced' / 'not-reproduced' / 'assume-violated' """
    exe = work.path(h.name + '_native')
    if not os.path.exists(exe):
        drv = work.path(h.name + '_drv.cpp')
        open(drv, 'w').write('#include "%s"\nint main(){ %s(); return 0; }\n' % (os.path.join(VERIF, 'harness', h.src), h.entry))
        native_build(drv, exe, defs=h.defs, pre_inc=h.pre_inc, objs=[native_rt_obj(work)], opt='-O1', extra=list(h.cflags), std=h.std)
    rf = nondet_file(work, h.name + '_' + tag, words)
    env = dict(os.environ); env['VERIF_REPLAY'] = rf
    rc, out, err, dt, to = sh([exe], timeout=120, env=env)
    if rc == 1 and 'CHECK-FAILED' in out: return 'reproduced', out
    if rc == 3: return 'assume-violated', out
    if rc == 0: return 'not-reproduced', out
    if rc < 0 or rc > 3: return 'reproduced', out + '\n[crashed rc=%d]' % rc   # crash of the real code on the model's input
    return 'not-reproduced', out

def run_engine_a(pid, tier, harnesses, ev, work, known_match=None, workers=None):
    """Runs all harnesses of the tier in parallel. Returns list of violation replay paths; raises Broken."""
    hs = [h for h in harnesses if tier in h.tiers]
    workers = workers or min(len(hs), max(1, (os.cpu_count() or 4) // 2)) or 1
    # lowering is cached and not thread-safe: do it up front
    for h in hs: lower(work, h)
    def one(h):
        try: return h, run_aharness(work, h, ev), None
        except Broken as b: return h, None, b
    with ThreadPoolExecutor(workers) as ex: results = list(ex.map(one, hs))
    violations = []; broken = []
    for h, r, b in results:
        if b: broken.append(str(b)); continue
        res, wres, g = r
        ev.functions.update(f[1:] for f in g.functions)
        for k, v in (h.redirect or {}).items(): ev.stubs.append('%s: %s -> %s' % (h.name, k[1:], v[1:]))
        for a in h.allow_ext: ev.stubs.append('%s: %s left nondeterministic' % (h.name, a[1:]))
        ev.peak_rss_mb = max(ev.peak_rss_mb, res.rss_mb)
        ev.bounds[h.name] = {'unwind': h.unwind, 'unwindset': h.unwindset, 'stated': h.bound}
        base = {'cbmc_properties': res.nprops, 'sat_variables': res.sat_vars, 'sat_clauses': res.sat_clauses, 'ssa_steps': res.steps, 'vccs': res.vccs, 'vccs_after_simplification': res.vccs_remaining, 'wall_s': round(res.time, 1), 'rss_mb': res.rss_mb}
        if res.status == 'success':
            wok = wres is not None and wres.status == 'failed'
            ev.witnesses[h.name] = 'reachable' if wok else ('UNREACHABLE' if wres is not None and wres.status == 'success' else 'inconclusive:%s' % (wres.status if wres else None))
            if not wok:
                ev.add(h.name, h.what, h.bound, 'inconclusive', res.solver_s, extra=base)
                broken.append('%s: witness twin not reachable (%s) - harness vacuous or over budget' % (h.name, ev.witnesses[h.name]))
            else:
                ev.add(h.name, h.what, h.bound, 'discharged', res.solver_s + wres.solver_s, nontrivial=max(res.vccs_remaining, 1), extra=base)
        elif res.status == 'failed':
            unw, povf, other = classify_failures(res)
            if unw and not other:
                ev.add(h.name, h.what, h.bound, 'inconclusive', res.solver_s, extra=base); broken.append('%s: unwinding assertion failed (bound too small): %s' % (h.name, unw[:3]))
            elif other:
                oth = set(f[0] for f in other)
                cands = [ws for (tp, ws) in res.traces if tp in oth] or [res.nondet]
                words = cands[0]
                payload = {'property': pid, 'harness': h.name, 'entry': h.entry, 'src': h.src, 'what': h.what, 'bound': h.bound, 'failed': other[:10],
                           'nondet_words': ['%016x' % w for w in words], 'defs': list(h.defs)}
                verdict = 'candidate'
                if h.native_replay and not h.redirect:
                    try:
                        for k, ws in enumerate(cands[:8]):
                            verdict, out = native_replay(work, h, ws, tag='cex%d' % k); ev.replays += 1
                            if verdict == 'reproduced': words = ws; payload['nondet_words'] = ['%016x' % w for w in ws]; break
                        payload['native_output'] = out[-2000:]
                    except Broken as b2:
                        verdict = 'replay-build-failed'; payload['native_output'] = str(b2)[-2000:]
                else:
                    verdict = 'reproduced-in-translation'   # harness with stubs: the counterexample is cbmc's trace over the translated real code
                payload['replay_verdict'] = verdict
                km = known_match(h, res, payload) if known_match else None
                if km:
                    ev.known_hits.append(km); ev.add(h.name, h.what, h.bound, 'known-finding', res.solver_s, extra=base)
                elif verdict in ('reproduced', 'reproduced-in-translation'):
                    path = save_replay(pid, h.name, payload); violations.append(path)
                    ev.add(h.name, h.what, h.bound, 'violated', res.solver_s, extra=base)
                else:
                    ev.add(h.name, h.what, h.bound, 'inconclusive', res.solver_s, extra=dict(base, note='counterexample did not reproduce natively: ' + verdict))
                    ev.notes.append('%s: cbmc counterexample not reproduced natively (%s) - recorded as inconclusive, no alarm' % (h.name, verdict))
                    save_replay(pid, h.name + '-unreproduced', payload)
            else:
                ev.notes.append('%s: only pointer-overflow checks failed (%d) - reported separately, never an alarm' % (h.name, len(povf)))
                ev.add(h.name, h.what, h.bound, 'discharged', res.solver_s, nontrivial=max(res.vccs_remaining, 1), extra=dict(base, pointer_overflow_only=len(povf)))
        else:
            ev.add(h.name, h.what, h.bound, res.status, res.solver_s, extra=base)
            broken.append('%s: cbmc %s after %.0fs (%d MB)\n%s' % (h.name, res.status, res.time, res.rss_mb, (res.err or '')[-500:] + res.out[-500:] if res.status == 'error' else ''))
    return violations, broken

# ------------------------------------------------------------------ translation validation
def tv_run(work, h_src, tv_funcs, ev, defs=(), nvec=300, pre_inc=(), noinline=False, inline_all=False, std='c++11', cflags=(), redirect=None):
    """tv_funcs: list of (name, n_in_words). Each is `extern "C" uint64_t name(const uint64_t *in)` in the harness TU.
    Compiles (a) the IR->C translation with gcc and (b) the harness TU itself with g++ from the real sources, runs both on the same
    pseudo-random word vectors (VERIF_SEED) and requires bit-identical results."""
    import random
    rnd = random.Random(ev.seed * 7919 + 13)
    class H: pass
    h = H(); h.src = h_src; h.defs = defs; h.noinline = noinline; h.inline_all = inline_all; h.pre_inc = pre_inc; h.cflags = cflags; h.std = std
    ll = lower(work, h)
    try: code, g = irc.translate(ll, ['@' + n for n, _ in tv_funcs], redirect=redirect)
    except irc.Unencodable as e: raise Broken('tv: %s' % e)
    base = os.path.basename(h_src).replace('.cpp', '')
    cf = work.path('tv_%s.c' % base); open(cf, 'w').write(code)
    drv = work.path('tv_%s_drv.c' % base)
    body = ['#include <stdint.h>', '#include <stdio.h>', '#include <stdlib.h>']
    for n, k in tv_funcs: body.append('uint64_t %s(const uint64_t *in);' % n)
    body.append('int main(int argc, char **argv){ FILE *f = fopen(argv[1], "r"); char nm[128]; int k; while (fscanf(f, "%127s %d", nm, &k) == 2) { uint64_t in[64]; for (int i = 0; i < k; i++) { unsigned long long w; if (fscanf(f, "%llx", &w) != 1) return 9; in[i] = w; } uint64_t r = 0;')
    for n, k in tv_funcs: body.append('  if (!strcmp(nm, "%s")) r = %s(in);' % (n, n))
    body.append('  printf("%s %016llx\\n", nm, (unsigned long long)r); } return 0; }')
    open(drv, 'w').write('#include <string.h>\n' + '\n'.join(body))
    rt = native_rt_obj(work)
    e1 = work.path('tv_%s_trans' % base); e2 = work.path('tv_%s_real' % base)
    rc, o, e, _, _ = sh(['gcc', '-O1', '-w', '-I', os.path.join(VERIF, 'env'), '-fno-strict-aliasing', '-ffp-contract=off', cf, drv, rt, '-lm', '-o', e1], timeout=300)
    if rc: raise Broken('tv: gcc on translated C failed: ' + e[-2000:])
    drvo = work.path('tv_%s_drv.o' % base)
    rc, o, e, _, _ = sh(['gcc', '-O1', '-w', '-c', drv, '-o', drvo])
    native_build(os.path.join(VERIF, 'harness', h_src), e2, defs=defs, pre_inc=pre_inc, objs=[drvo, rt], extra=list(cflags), std=std)
    vec = work.path('tv_%s_vec.txt' % base)
    special = [0, 1, 2, 3, 26, 27, 63, 64, 0x7ff0000000000000, 0x3ff0000000000000, 0xbff0000000000000, 0x8000000000000000, 0xffffffffffffffff, 0x4000000000000000, 0x3fe0000000000000, 0x0010000000000000]
    with open(vec, 'w') as f:
        for n, k in tv_funcs:
            for j in range(nvec):
                ws = []
                for i in range(k):
                    c = rnd.random()
                    if c < 0.3: ws.append(rnd.choice(special))
                    elif c < 0.6: ws.append(rnd.randrange(0, 64))
                    elif c < 0.8: ws.append(struct.unpack('<Q', struct.pack('<d', rnd.uniform(-4, 4)))[0])
                    else: ws.append(rnd.getrandbits(64))
                f.write('%s %d %s\n' % (n, k, ' '.join('%x' % w for w in ws)))
    r1 = sh([e1, vec], timeout=120); r2 = sh([e2, vec], timeout=120)
    ev.tv['programs'] += len(tv_funcs); ev.tv['vectors'] += nvec * len(tv_funcs)
    if r1[0] != 0 or r2[0] != 0: raise Broken('tv: driver crashed rc=%s/%s' % (r1[0], r2[0]))
    if r1[1] != r2[1]:
        l1 = r1[1].split('\n'); l2 = r2[1].split('\n'); mm = [(a, b) for a, b in zip(l1, l2) if a != b]
        ev.tv['mismatches'] += len(mm)
        raise Broken('translation validation mismatch (translated C vs real code), first: %r' % (mm[:3],))
    return True
