// C12-M1: constructor/destructor pairing of the REAL LiveOutputManager on storage whose previous content is arbitrary
#include "c12/calc_stubs.hpp"
#include "LiveOutputManager.hpp"
#include <new>
extern "C" {
__attribute__((noinline)) void h_m1_lom(void) {
  alignas(8) unsigned char buf[sizeof(LiveOutputManager)];
  for (unsigned i = 0; i < sizeof(LiveOutputManager); ++i) buf[i] = nondet_uchar();      // arbitrary previous content (uninitialised memory)
  const bool enabled = nondet_uchar() & 1, sd = nondet_uchar() & 1, isd = nondet_uchar() & 1, dp = nondet_uchar() & 1, vp = nondet_uchar() & 1;
  CoordinateVector< int_fast32_t > ns(2, 2, 2), nc(4, 4, 4);
  LiveOutputManager *m = new (buf) LiveOutputManager(ns, nc, enabled, sd, isd, dp, 1., 2., 3, vp, 1., 3, 1.);
  // every owned pointer is either null or a live heap object created by this constructor; what is enabled is present
  __verif_check(m->_surface_density_calculator == nullptr || m->_surface_density_calculator->tag == 1);
  __verif_check(m->_surface_density_ionized_calculator == nullptr || m->_surface_density_ionized_calculator->tag == 2);
  __verif_check(m->_density_PDF_calculator == nullptr || m->_density_PDF_calculator->tag == 3);
  __verif_check(m->_velocity_PDF_calculator == nullptr || m->_velocity_PDF_calculator->tag == 4);
  __verif_check((m->_surface_density_ionized_calculator != nullptr) == (enabled && isd));
  __verif_check((m->_surface_density_calculator != nullptr) == (enabled && sd));
  m->~LiveOutputManager();                                                                // must only free what it allocated (cbmc pointer checks)
}
}
