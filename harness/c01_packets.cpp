// C01: per-task packet accounting lemmas on the REAL MemorySpace::add_photons / free_buffer and DistributedPhotonSource::get_photon_batch
#include "MemorySpace.hpp"
#include "DistributedPhotonSource.hpp"
#define B PHOTONBUFFER_SIZE
#define NBUF 3
typedef ThreadSafeVector< PhotonBuffer > TSVB;
union UM { MemorySpace m; UM() {} ~UM() {} }; union UB { PhotonBuffer b[NBUF + 1]; UB() {} ~UB() {} };
UM g_m; UB g_b;
extern "C" {
AtomicValue<bool> blocks[NBUF];
// H1: add_photons moves every input packet exactly once, overflows into a fresh EMPTY buffer, keeps sub-grid and direction
__attribute__((noinline)) void h_h1_add_photons(void) {
  TSVB &v = g_m.m._memory_space; PhotonBuffer *buf = g_b.b; PhotonBuffer &in = g_b.b[NBUF];
  const_cast<size_t &>(v._size) = NBUF; v._vector = buf; v._locks = blocks;
  // arbitrary valid pool state: flags arbitrary, occupancy == flags set, FREE slots have size 0 (what free_buffer establishes)
  int taken = 0; for (int i = 0; i < NBUF; ++i) { bool l = nondet_uchar() & 1; blocks[i].set(l); taken += l; unsigned s = nondet_uint(); __CPROVER_assume(s <= B); if (!l) s = 0; buf[i]._actual_size = s; buf[i]._subgrid_index = nondet_ulong(); buf[i]._direction = nondet_int(); }
  v._number_taken.set(taken); v._current_index.set(nondet_ulong()); v._max_number_taken.set(taken); v._total_number_taken.set(0);
#ifdef IDX
  const size_t idx = IDX; __CPROVER_assume(blocks[idx].value());                                                        // target slot fixed per run (all slots are run)
  buf[idx]._actual_size = S0;
#else
  const size_t idx = nondet_ulong(); __CPROVER_assume(idx < NBUF && blocks[idx].value() && buf[idx]._actual_size < B);   // the target buffer is held and not full
#endif
  __CPROVER_assume(taken < NBUF);                                                                                       // capacity not exhausted (stated precondition)
#ifdef IDX
  const unsigned s0 = S0, n = NN;                                                                                        // fill level and input size fixed per run (all combinations are run)
#else
  const unsigned s0 = buf[idx]._actual_size, n = nondet_uint(); __CPROVER_assume(n <= B);
#endif
  in._actual_size = n; for (unsigned k = 0; k < B; ++k) in._photons[k]._energy = 1000. + k;                            // packets tagged by id
  for (int i = 0; i < NBUF; ++i) for (unsigned k = 0; k < B; ++k) buf[i]._photons[k]._energy = -1. - k;                // old content has negative tags
  const size_t sg = buf[idx]._subgrid_index; const int dir = buf[idx]._direction;
  const size_t out = g_m.m.add_photons(idx, in);
  __verif_check(out < NBUF);
  if (s0 + n < B) { __verif_check(out == idx); __verif_check(buf[idx]._actual_size == s0 + n); __verif_check((int)v._number_taken.value() == taken); }
  else {                                                                                                                // the target became full: a NEW buffer is returned
    __verif_check(out != idx); __verif_check(blocks[out].value()); __verif_check(buf[idx]._actual_size == B);
    __verif_check(buf[out]._actual_size == s0 + n - B);                                                                  // sizes add up: nothing lost, nothing duplicated
    __verif_check(buf[out]._subgrid_index == sg && buf[out]._direction == dir);                                          // the new buffer inherits sub-grid and direction
    __verif_check((int)v._number_taken.value() == taken + 1);                                                            // pool occupancy grows by exactly one
  }
  // every input packet appears exactly once, in order, after the packets that were already there
  for (unsigned k = 0; k < B; ++k) if (k < n) { const unsigned pos = s0 + k; const double e = pos < B ? buf[idx]._photons[pos]._energy : buf[out]._photons[pos - B]._energy; __verif_check(e == 1000. + k); }
  for (unsigned k = 0; k < B; ++k) if (k < s0) __verif_check(buf[idx]._photons[k]._energy == -1. - k);                   // earlier packets untouched
}
// free_buffer: resets BEFORE releasing, so a free slot always has size 0 (the pool invariant H1 relies on)
__attribute__((noinline)) void h_h1_free_buffer(void) {
  TSVB &v = g_m.m._memory_space; PhotonBuffer *buf = g_b.b;
  const_cast<size_t &>(v._size) = NBUF; v._vector = buf; v._locks = blocks;
  int taken = 0; for (int i = 0; i < NBUF; ++i) { bool l = nondet_uchar() & 1; blocks[i].set(l); taken += l; unsigned s = nondet_uint(); __CPROVER_assume(s <= B); if (!l) s = 0; buf[i]._actual_size = s; }
  v._number_taken.set(taken); v._max_number_taken.set(taken); v._total_number_taken.set(0); v._current_index.set(nondet_ulong());
  const size_t idx = nondet_ulong(); __CPROVER_assume(idx < NBUF && blocks[idx].value());
  g_m.m.free_buffer(idx);
  __verif_check(!blocks[idx].value() && buf[idx]._actual_size == 0 && (int)v._number_taken.value() == taken - 1);
  for (int i = 0; i < NBUF; ++i) if (!blocks[i].value()) __verif_check(buf[i]._actual_size == 0);
}
// H4a: get_photon_batch inductive step: batch = min(max, total-done), done' = done+batch <= total, 0 iff exhausted
union UD { DistributedPhotonSource< DensitySubGrid > d; UD() {} ~UD() {} }; UD g_d;
size_t tot[2], done_[2], sgs[2]; ThreadLock lk[2]; struct VecL { ThreadLock *b, *e, *c; } lockvec;
__attribute__((noinline)) void h_h4_batch(void) {
  DistributedPhotonSource< DensitySubGrid > &d = g_d.d;
  *reinterpret_cast<size_t **>(&d._total_number_of_photons) = tot; *(reinterpret_cast<size_t **>(&d._total_number_of_photons) + 1) = tot + 2;
  *reinterpret_cast<size_t **>(&d._number_done) = done_; *(reinterpret_cast<size_t **>(&d._number_done) + 1) = done_ + 2;
  *reinterpret_cast<size_t **>(&d._subgrids) = sgs; *(reinterpret_cast<size_t **>(&d._subgrids) + 1) = sgs + 2;
  lockvec.b = lk; lockvec.e = lk + 2; lockvec.c = lk + 2; d._locks = reinterpret_cast<std::vector< ThreadLock > *>(&lockvec);
  for (int k = 0; k < 2; ++k) { tot[k] = nondet_ulong(); done_[k] = nondet_ulong(); __CPROVER_assume(done_[k] <= tot[k]); lk[k]._lock.set(false); }
  const size_t src = nondet_ulong(), mx = nondet_ulong(); __CPROVER_assume(src < 2 && mx > 0);
  const size_t t0 = tot[src], d0 = done_[src], o0 = done_[1 - src];
  const size_t got = d.get_photon_batch(src, mx);
  __verif_check(got == (mx < t0 - d0 ? mx : t0 - d0));
  __verif_check(done_[src] == d0 + got && done_[src] <= t0);
  __verif_check((got == 0) == (d0 == t0));
  __verif_check(done_[1 - src] == o0 && !lk[src]._lock.value());
}
// H4b (A-seq): two threads ask the SAME source for a batch concurrently: together they never receive more than what is left,
// the done counter is exact at quiescence, the source lock is released
#ifndef H4B_MAX
#define H4B_MAX 0xffUL
#endif
size_t h4b_mx[2], h4b_got[2], h4b_t0v, h4b_d0v;
__attribute__((noinline)) void h4b_setup(void) {
  DistributedPhotonSource< DensitySubGrid > &d = g_d.d;
  *reinterpret_cast<size_t **>(&d._total_number_of_photons) = tot; *(reinterpret_cast<size_t **>(&d._total_number_of_photons) + 1) = tot + 2;
  *reinterpret_cast<size_t **>(&d._number_done) = done_; *(reinterpret_cast<size_t **>(&d._number_done) + 1) = done_ + 2;
  *reinterpret_cast<size_t **>(&d._subgrids) = sgs; *(reinterpret_cast<size_t **>(&d._subgrids) + 1) = sgs + 2;
  lockvec.b = lk; lockvec.e = lk + 2; lockvec.c = lk + 2; d._locks = reinterpret_cast<std::vector< ThreadLock > *>(&lockvec);
  for (int k = 0; k < 2; ++k) { tot[k] = nondet_ulong(); done_[k] = nondet_ulong(); __CPROVER_assume(done_[k] <= tot[k] && tot[k] <= H4B_MAX); lk[k]._lock.set(false);
    h4b_mx[k] = nondet_ulong(); __CPROVER_assume(h4b_mx[k] > 0 && h4b_mx[k] <= H4B_MAX); h4b_got[k] = 0; }
  h4b_t0v = tot[0]; h4b_d0v = done_[0];
}
__attribute__((noinline)) void h4b_t0(void) { h4b_got[0] = g_d.d.get_photon_batch(0, h4b_mx[0]); }
__attribute__((noinline)) void h4b_t1(void) { h4b_got[1] = g_d.d.get_photon_batch(0, h4b_mx[1]); }
__attribute__((noinline)) void h4b_post(void) {
  const size_t rem = h4b_t0v - h4b_d0v, want = h4b_mx[0] + h4b_mx[1];
  __verif_check(h4b_got[0] <= h4b_mx[0] && h4b_got[1] <= h4b_mx[1]);
  __verif_check(h4b_got[0] + h4b_got[1] == (want < rem ? want : rem));          // nothing lost, nothing handed out twice
  __verif_check(done_[0] == h4b_d0v + h4b_got[0] + h4b_got[1] && done_[0] <= h4b_t0v);
  __verif_check(!lk[0]._lock.value());
  __verif_check(tot[1] == tot[1] && !lk[1]._lock.value());
}
}
