// C12-M2: REAL ThreadSafeVector bulk operations used by the RHD task clean-up (clear_after, clear, get_free_elements): they touch
// exactly the slots they should and never an address outside the two arrays (cbmc pointer checks on exactly-sized arrays)
#include "ThreadSafeVector.hpp"
#define NS 4
typedef ThreadSafeVector< unsigned long > TSV;
union UV { TSV v; UV() {} ~UV() {} }; UV g_v;
extern "C" {
unsigned long data[NS]; AtomicValue<bool> locks[NS];
static inline TSV &setup(void) {
  TSV &v = g_v.v; const_cast<size_t &>(v._size) = NS; v._vector = data; v._locks = locks;
  for (int i = 0; i < NS; ++i) { locks[i].set(nondet_uchar() & 1); data[i] = nondet_ulong(); }
  v._current_index.set(nondet_ulong());                 // the unwrapped ring counter: ANY value (it exceeds the size once freed slots are reused)
  v._number_taken.set(nondet_ulong()); v._max_number_taken.set(0); v._total_number_taken.set(0);
  return v;
}
__attribute__((noinline)) void h_m2_clear_after(void) {
  TSV &v = setup(); unsigned long d0[NS]; bool l0[NS]; for (int i = 0; i < NS; ++i) { d0[i] = data[i]; l0[i] = locks[i].value(); }
  const size_t off = nondet_ulong(); __CPROVER_assume(off <= NS);
  v.clear_after(off);
  for (int i = 0; i < NS; ++i) { if ((size_t)i >= off) { __verif_check(!locks[i].value() && data[i] == 0); } else { __verif_check(locks[i].value() == l0[i] && data[i] == d0[i]); } }
  __verif_check(v._number_taken.value() == off && v._current_index.value() == off);
}
__attribute__((noinline)) void h_m2_block(void) {
  TSV &v = setup(); for (int i = 0; i < NS; ++i) locks[i].set(false);
  const size_t n = nondet_ulong(); __CPROVER_assume(n < NS);
  v.get_free_elements(n);
  for (int i = 0; i < NS; ++i) __verif_check(locks[i].value() == ((size_t)i < n));
  __verif_check(v._number_taken.value() == n && v._current_index.value() == n);
}
}
