// Native replay for C07/D2 on the REAL code: builds the hydro task graph for one sub-grid with a periodic x axis (real
// HydroDensitySubGrid constructor, real create_subgrid wiring, real make_hydro_tasks / set_dependencies / reset_hydro_tasks
// extracted verbatim from TaskBasedRadiationHydrodynamicsSimulation.cpp into c07_extract.hpp) and tries to lock every task
// while no lock is held.  A task that cannot be locked although all locks are free can never run: the step never ends.
#include "DensitySubGridCreator.hpp"
#include "HydroDensitySubGrid.hpp"
#include "Task.hpp"
#include "TaskQueue.hpp"
#include "ThreadSafeVector.hpp"
#include "c07_extract.hpp"
int main(int argc, char **argv) {
  int nx = atoi(argv[1]), ny = atoi(argv[2]), nz = atoi(argv[3]), pf = atoi(argv[4]);
  Box<> box(CoordinateVector<>(0.), CoordinateVector<>(1.));
  DensitySubGridCreator< HydroDensitySubGrid > creator(box, CoordinateVector< int_fast32_t >(4 * nx, 4 * ny, 4 * nz), CoordinateVector< int_fast32_t >(nx, ny, nz),
                                                      CoordinateVector< bool >((pf >> 2) & 1, (pf >> 1) & 1, pf & 1));
  const int nsub = nx * ny * nz;
  for (int i = 0; i < nsub; ++i) creator._subgrids[i] = creator.create_subgrid(i);
  ThreadSafeVector< Task > tasks(18 * nsub + 1);
  for (int i = 0; i < nsub; ++i) make_hydro_tasks(tasks, i, creator);
  for (int i = 0; i < nsub; ++i) set_dependencies(i, creator, tasks);
  for (int i = 0; i < nsub; ++i) reset_hydro_tasks(tasks, *creator._subgrids[i]);
  int bad = 0;
  for (size_t t = 0; t < tasks.get_number_of_active_elements(); ++t) {
    if (tasks[t].lock_dependency()) tasks[t].unlock_dependency();
    else { printf("REPRODUCED-D2 layout %dx%dx%d periodicity %d%d%d: task %zu (type %d, sub-grid %zu, partner %zu) cannot be locked although every lock is free (its two locks are the same lock)\n", nx, ny, nz, (pf >> 2) & 1, (pf >> 1) & 1, pf & 1, t, (int)tasks[t].get_type(), tasks[t].get_subgrid(), tasks[t].get_buffer()); ++bad; break; }
  }
  if (!bad) printf("HOLDS every task lockable\n");
  return bad ? 1 : 0;
}
