#!/usr/bin/env python3
"""Engine A: LLVM IR (clang-14, typed pointers) -> C translation unit for cbmc.

Every function reachable from the roots is emitted; a callee without IR must be
on the allowed-external list (nondet_*, __CPROVER_*, __verif_*, libm) or be
redirected to a harness-provided stub, otherwise the run fails loudly."""
import re, sys
from ir import *

def cid(n):
    n = n.strip('"')
    if n[0] in '%@': n = n[1:]
    n = n.strip('"')
    return re.sub(r'[^A-Za-z0-9_]', '_', n)

LIBM = {'@sqrt', '@pow', '@exp', '@log', '@log10', '@fabs', '@floor', '@ceil', '@sin', '@cos', '@acos', '@atan2', '@fmod', '@cbrt', '@round', '@tan', '@atan', '@asin', '@exp2', '@expm1', '@log1p', '@log2'}
INTRIN_MATH = {'@llvm.sqrt.f64': 'sqrt', '@llvm.fabs.f64': 'fabs', '@llvm.floor.f64': 'floor', '@llvm.ceil.f64': 'ceil', '@llvm.pow.f64': 'pow',
               '@llvm.exp.f64': 'exp', '@llvm.log.f64': 'log', '@llvm.log10.f64': 'log10', '@llvm.round.f64': 'round', '@llvm.trunc.f64': 'trunc',
               '@llvm.minnum.f64': 'fmin', '@llvm.maxnum.f64': 'fmax', '@llvm.copysign.f64': 'copysign', '@llvm.sin.f64': 'sin', '@llvm.cos.f64': 'cos'}

class Unencodable(Exception): pass

class CGen:
    def __init__(s, m, roots, redirect=None, allow_ext=(), indirect=None, step_funcs=()):
        """redirect: {mangled name: replacement name} (both with '@'); allow_ext: extra externals left undefined on
        purpose (nondeterministic in cbmc); indirect: {function name: [candidate callee names]} for indirect calls"""
        s.m = m; s.roots = list(roots); s.tdecl = {}; s.torder = []
        s.redirect = dict(redirect or {}); s.allow_ext = set(allow_ext); s.indirect = indirect or {}
        s.helpers = set(); s.step_funcs = set(step_funcs)
    # ---------- types
    def ctype(s, t):
        if isinstance(t, NamedT):
            s.need_struct(t.name); return 'struct ' + 'S_' + cid(t.name)
        if isinstance(t, IntT):
            b = t.bits
            if b == 1: return 'unsigned char'
            for w in (8, 16, 32, 64):
                if b <= w: return 'uint%d_t' % w
            if b <= 128: return 'unsigned __int128'
        if isinstance(t, DblT): return 'double'
        if isinstance(t, VoidT): return 'void'
        if isinstance(t, FnT): return 'void'   # fn pointers as void*
        if isinstance(t, PtrT):
            inner = t.to
            if isinstance(inner, FnT): return 'void *'
            return s.ctype(inner) + ' *'
        if isinstance(t, ArrT):
            key = 'A%d_%s' % (t.n, re.sub(r'[^A-Za-z0-9]', '_', s.ctype(t.el)))
            if key not in s.tdecl:
                el = s.ctype(t.el)
                s.tdecl[key] = 'struct %s { %s e[%d]; };' % (key, el, max(t.n, 1)); s.torder.append(key)
            return 'struct ' + key
        if isinstance(t, StructT):
            key = 'L_' + re.sub(r'[^A-Za-z0-9]', '_', '_'.join(s.ctype(e) for e in t.els))[:200] + ('_p' if t.packed else '')
            if key not in s.tdecl:
                body = ' '.join('%s f%d;' % (s.ctype(e), i) for i, e in enumerate(t.els)) or 'char dummy;'
                s.tdecl[key] = 'struct %s { %s }%s;' % (key, body, ' __attribute__((packed))' if t.packed else ''); s.torder.append(key)
            return 'struct ' + key
        raise Exception('ctype %r' % t)
    def need_struct(s, name):
        key = 'S_' + cid(name)
        if key in s.tdecl: return
        s.tdecl[key] = None  # in progress (handles recursion through pointers)
        t = s.m.types[name]
        fields = []
        for i, e in enumerate(t.els):
            if isinstance(e, PtrT): fields.append('void *f%d;' % i)   # break cycles: all pointer fields are void*
            else: fields.append('%s f%d;' % (s.ctype(e), i))
        s.tdecl[key] = 'struct %s { %s }%s;' % (key, ' '.join(fields) or 'char dummy;', ' __attribute__((packed))' if t.packed else '')
        s.torder.append(key)
    # ---------- operands
    def rn(s, r): return cid(r) if not r[1:].isdigit() else 'r' + r[1:]
    def val(s, o, ty):
        k = o[0]
        if k == 'reg': return s.rn(o[1])
        if k == 'int':
            t = s.m.resolve(ty) if ty is not None else IntT(64)
            bits = getattr(t, 'bits', 64)
            v = o[1] & ((1 << bits) - 1)
            return '((%s)%dULL)' % (s.ctype(t), v) if bits <= 64 else str(v)
        if k == 'dbl':
            v = o[1]
            if v != v: return '(0.0/0.0)'
            if v in (float('inf'), float('-inf')): return '(%s1.0/0.0)' % ('-' if v < 0 else '')
            return '(%s)' % v.hex()
        if k in ('zero', 'undef'):
            t = s.m.resolve(ty)
            if isinstance(t, (IntT, DblT)): return '0'
            if isinstance(t, PtrT): return '((%s)0)' % s.ctype(ty)
            return '(%s){0}' % s.ctype(ty)
        if k == 'glob':
            n = o[1]
            if n in s.m.funcs or n in s.m.decls_all: return '((void*)&%s)' % cid(s.redirect.get(n, n))
            s.used_globals.add(n); return '(&%s)' % ('g_' + cid(n))
        if k == 'cgep':
            base = s.val(o[2], None)
            return s.gep_expr(o[1], base, [(None, x) for x in o[3]])
        raise Exception('val %r' % (o,))
    def gep_expr(s, bt, base, idx):
        e = '((%s *)(%s))' % (s.ctype(bt), base); t = bt
        acc = None
        for k, (it, io) in enumerate(idx):
            iv = s.val(io, it if it is not None else IntT(64))
            if it is not None:
                b = s.m.resolve(it).bits
                if b < 64: iv = '((int64_t)(int%d_t)%s)' % (b, iv)
            if k == 0:
                e = '(%s + (int64_t)%s)' % (e, iv)
                acc = '(*%s)' % e
            else:
                t = s.m.resolve(t)
                if isinstance(t, StructT):
                    n = io[1]; ft = t.els[n]
                    if isinstance(ft, PtrT): acc = '(*(%s *)&%s.f%d)' % (s.ctype(ft), acc, n)
                    else: acc = '%s.f%d' % (acc, n)
                    t = ft
                elif isinstance(t, ArrT):
                    acc = '%s.e[(int64_t)%s]' % (acc, iv); t = t.el
                else: raise Exception('gep into %r' % t)
        return '(&%s)' % acc
    def gep_type(s, bt, idx):
        t = bt
        for k, (it, io) in enumerate(idx):
            if k == 0: continue
            t = s.m.resolve(t)
            if isinstance(t, StructT): t = t.els[io[1]]
            elif isinstance(t, ArrT): t = t.el
        return t
    def agg_type(s, ty, idx):
        t = ty
        for k in idx:
            t = s.m.resolve(t)
            t = t.els[k] if isinstance(t, StructT) else t.el
        return t
    # ---------- function
    def emit_func(s, fname):
        F = s.F[fname]; m = s.m; rn = s.rn
        rty = ret_type(m, fname)
        regty = {}
        for ty, nm, bv in F.params: regty[nm] = ty
        for b in F.order:
            for i in F.blocks[b]:
                if i.dest is None: continue
                op = i.op
                if op in BINOPS or op in ('fneg', 'select', 'phi', 'load', 'freeze', 'landingpad'): regty[i.dest] = i.ty
                elif op in ('icmp', 'fcmp'): regty[i.dest] = IntT(1)
                elif op in CASTS: regty[i.dest] = i.tt
                elif op == 'alloca': regty[i.dest] = PtrT(i.ty)
                elif op == 'getelementptr': regty[i.dest] = PtrT(s.gep_type(i.bt, i.idx))
                elif op == 'call': regty[i.dest] = i.rty
                elif op == 'extractvalue': regty[i.dest] = s.agg_type(i.ty, i.idx)
                elif op == 'insertvalue': regty[i.dest] = i.ty
                elif op == 'cmpxchg': regty[i.dest] = StructT([i.ty, IntT(1)])
                elif op == 'atomicrmw': regty[i.dest] = i.ty
                else: raise Exception('regty %s' % op)
        pnames = [nm for _, nm, _ in F.params]
        params = ', '.join('%s %s' % (s.ctype(ty), rn(nm)) for ty, nm, bv in F.params) or 'void'
        step = fname in s.step_funcs      # A-seq: resumable step machine, one atomic operation per step (yield BEFORE every atomic instruction)
        if step and (F.params or not isinstance(rty, VoidT)): raise Unencodable('step function %s must be void(void)' % fname)
        SN = cid(fname); st = 'static ' if step else ''; nyield = [0]
        o = ['%s %s(%s) {' % (s.ctype(rty), SN + ('_step' if step else ''), params)]
        for r, ty in regty.items():
            if r in pnames: continue
            o.append('  %s%s %s;' % (st, s.ctype(ty), rn(r)))
        if step: o.append('  switch (%s_pc) { case 0: ;' % SN)
        def yield_point():
            nyield[0] += 1
            return '  %s_pc = %d; return; case %d: ;' % (SN, nyield[0], nyield[0])
        nal = 0; nbr = [0]; phitmp = {}; cdecl = []
        for ty, nm, bv in F.params:
            if bv is not None:
                o.append('  %s bv_%s = *%s; %s = &bv_%s;' % (s.ctype(bv), rn(nm), rn(nm), rn(nm), rn(nm)))
        def V(op, ty): return s.val(op, ty)
        def width(ty):
            b = m.resolve(ty).bits
            return b, (8 if b <= 8 else 16 if b <= 16 else 32 if b <= 32 else 64)
        def sx(e, ty):
            b, w = width(ty)
            if b == w: return '((int%d_t)%s)' % (w, e)
            return '((int%d_t)((int%d_t)((uint%d_t)%s << %d) >> %d))' % (w, w, w, e, w - b, w - b)
        def mask(e, ty):
            b = m.resolve(ty).bits
            if b in (8, 16, 32, 64): return e
            return '(%s & %dULL)' % (e, (1 << b) - 1)
        def wide(e, ty):
            b, w = width(ty)
            return e if w >= 32 else '((uint32_t)%s)' % e
        # emit blocks in reverse post-order so that textually backward gotos are exactly the CFG back edges
        succ = {}
        for b in F.order:
            t = F.blocks[b][-1] if F.blocks[b] else None; ss = []
            if t is not None:
                if t.op == 'jmp': ss = [t.to]
                elif t.op == 'br': ss = [t.t, t.f]
                elif t.op == 'switch': ss = [l for _, l in t.cases] + [t.default]
                elif t.op == 'call' and t.normal is not None: ss = [t.normal]
            succ[b] = ss
        post = []; seen_b = set(); stack = [(F.entry, iter(succ[F.entry]))]; seen_b.add(F.entry)
        while stack:
            b0, it = stack[-1]
            for nx in it:
                if nx not in seen_b: seen_b.add(nx); stack.append((nx, iter(succ[nx]))); break
            else: post.append(b0); stack.pop()
        rpo = post[::-1]; rpo_idx = {b_: k for k, b_ in enumerate(rpo)}
        for b in rpo:
            o.append(' L_%s: ;' % cid(b))
            for i in F.blocks[b]:
                op = i.op; d = rn(i.dest) if i.dest else None
                if op == 'phi': continue
                if op == 'alloca':
                    nal += 1
                    if i.n is not None and i.n[0] != 'int': raise Unencodable('variable-size alloca in %s' % fname)
                    cnt = i.n[1] if i.n is not None else 1
                    if cnt == 1: o.insert(1, '  %s%s al_%d;' % (st, s.ctype(i.ty), nal)); o.append('  %s = &al_%d;' % (d, nal))
                    else: o.insert(1, '  %s%s al_%d[%d];' % (st, s.ctype(i.ty), nal, cnt)); o.append('  %s = &al_%d[0];' % (d, nal))
                elif op == 'load':
                    if step and getattr(i, 'atomic', False): o.append(yield_point())
                    pre, post = ('__CPROVER_atomic_begin(); ', ' __CPROVER_atomic_end();') if getattr(i, 'atomic', False) else ('', '')
                    o.append('  %s%s = *(%s *)%s;%s' % (pre, d, s.ctype(i.ty), V(i.a, PtrT(i.ty)), post))
                elif op == 'store':
                    if step and getattr(i, 'atomic', False): o.append(yield_point())
                    pre, post = ('__CPROVER_atomic_begin(); ', ' __CPROVER_atomic_end();') if getattr(i, 'atomic', False) else ('', '')
                    o.append('  %s*(%s *)%s = %s;%s' % (pre, s.ctype(i.ty), V(i.a, PtrT(i.ty)), V(i.v, i.ty), post))
                elif op == 'getelementptr':
                    o.append('  %s = (%s)%s;' % (d, s.ctype(regty[i.dest]), s.gep_expr(i.bt, V(i.base, None), i.idx)))
                elif op in ('bitcast', 'inttoptr', 'ptrtoint'):
                    ft = m.resolve(i.ft); tt = m.resolve(i.tt)
                    if op == 'bitcast' and isinstance(ft, DblT) != isinstance(tt, DblT) and not isinstance(ft, PtrT):
                        s.helpers.add('bits'); o.append('  %s = %s(%s);' % (d, 'verif_d2u' if isinstance(ft, DblT) else 'verif_u2d', V(i.a, i.ft)))
                    else: o.append('  %s = (%s)%s;' % (d, s.ctype(i.tt), V(i.a, i.ft)))
                elif op in ('zext', 'trunc'): o.append('  %s = %s;' % (d, mask('(%s)%s' % (s.ctype(i.tt), V(i.a, i.ft)), i.tt)))
                elif op == 'sext': o.append('  %s = %s;' % (d, mask('(%s)%s' % (s.ctype(i.tt), sx(V(i.a, i.ft), i.ft)), i.tt)))
                elif op == 'sitofp': o.append('  %s = (double)%s;' % (d, sx(V(i.a, i.ft), i.ft)))
                elif op == 'uitofp': o.append('  %s = (double)%s;' % (d, V(i.a, i.ft)))
                elif op == 'fptosi': o.append('  %s = %s;' % (d, mask('(%s)(int64_t)%s' % (s.ctype(i.tt), V(i.a, i.ft)), i.tt)))
                elif op == 'fptoui': o.append('  %s = (%s)%s;' % (d, s.ctype(i.tt), V(i.a, i.ft)))
                elif op in ('fpext', 'fptrunc', 'freeze'): o.append('  %s = %s;' % (d, V(i.a, getattr(i, 'ft', getattr(i, 'ty', None)))))
                elif op in ('fadd', 'fsub', 'fmul', 'fdiv'):
                    o.append('  %s = %s %s %s;' % (d, V(i.a, i.ty), {'fadd': '+', 'fsub': '-', 'fmul': '*', 'fdiv': '/'}[op], V(i.b, i.ty)))
                elif op == 'frem': o.append('  %s = fmod(%s, %s);' % (d, V(i.a, i.ty), V(i.b, i.ty)))
                elif op == 'fneg': o.append('  %s = -%s;' % (d, V(i.a, i.ty)))
                elif op in ('add', 'sub', 'mul', 'and', 'or', 'xor', 'udiv', 'urem', 'shl', 'lshr'):
                    c = {'add': '+', 'sub': '-', 'mul': '*', 'and': '&', 'or': '|', 'xor': '^', 'udiv': '/', 'urem': '%', 'shl': '<<', 'lshr': '>>'}[op]
                    o.append('  %s = %s;' % (d, mask('(%s)(%s %s %s)' % (s.ctype(i.ty), wide(V(i.a, i.ty), i.ty), c, wide(V(i.b, i.ty), i.ty)), i.ty)))
                elif op in ('sdiv', 'srem', 'ashr'):
                    c = {'sdiv': '/', 'srem': '%', 'ashr': '>>'}[op]
                    rhs = sx(V(i.b, i.ty), i.ty) if op != 'ashr' else V(i.b, i.ty)
                    o.append('  %s = %s;' % (d, mask('(%s)(%s %s %s)' % (s.ctype(i.ty), sx(V(i.a, i.ty), i.ty), c, rhs), i.ty)))
                elif op == 'icmp':
                    t = m.resolve(i.ty); a, bb = V(i.a, i.ty), V(i.b, i.ty)
                    if isinstance(t, PtrT): a, bb = '(uintptr_t)' + a, '(uintptr_t)' + bb
                    elif i.pred[0] == 's': a, bb = sx(a, i.ty), sx(bb, i.ty)
                    c = {'eq': '==', 'ne': '!=', 'slt': '<', 'sle': '<=', 'sgt': '>', 'sge': '>=', 'ult': '<', 'ule': '<=', 'ugt': '>', 'uge': '>='}[i.pred]
                    o.append('  %s = (%s %s %s);' % (d, a, c, bb))
                elif op == 'fcmp':
                    a, bb = V(i.a, i.ty), V(i.b, i.ty); pr = i.pred
                    base = {'eq': '==', 'ne': '!=', 'lt': '<', 'le': '<=', 'gt': '>', 'ge': '>='}.get(pr[1:])
                    if pr == 'ord': e = '(%s==%s && %s==%s)' % (a, a, bb, bb)
                    elif pr == 'uno': e = '(%s!=%s || %s!=%s)' % (a, a, bb, bb)
                    elif pr == 'one': e = '(%s<%s || %s>%s)' % (a, bb, a, bb)
                    elif pr == 'ueq': e = '!(%s<%s || %s>%s)' % (a, bb, a, bb)
                    elif pr == 'une': e = '(%s != %s)' % (a, bb)
                    elif pr == 'true': e = '1'
                    elif pr == 'false': e = '0'
                    elif pr[0] == 'o': e = '(%s %s %s)' % (a, base, bb)
                    else:  # unordered or cmp == !(ordered inverse)
                        inv = {'lt': '>=', 'le': '>', 'gt': '<=', 'ge': '<'}[pr[1:]]
                        e = '!(%s %s %s)' % (a, inv, bb)
                    o.append('  %s = %s;' % (d, e))
                elif op == 'select': o.append('  %s = %s ? %s : %s;' % (d, V(i.c, IntT(1)), V(i.a, i.ty), V(i.b, i.ty)))
                elif op in ('jmp', 'br', 'switch'):
                    def edge(to):
                        cps = []
                        for pi in F.blocks[to]:
                            if pi.op != 'phi': continue
                            for (v, l) in pi.inc:
                                if l == b: cps.append((rn(pi.dest), V(v, pi.ty), s.ctype(pi.ty))); break
                        if not cps: return 'goto L_%s;' % cid(to)
                        for dn, vv, ct in cps:
                            if dn not in phitmp: phitmp[dn] = ct
                        tmp = ' '.join('t_%s = %s;' % (dn, vv) for dn, vv, ct in cps)
                        asg = ' '.join('%s = t_%s;' % (dn, dn) for dn, vv, ct in cps)
                        return '{ %s %s goto L_%s; }' % (tmp, asg, cid(to))
                    if op == 'jmp': o.append('  ' + edge(i.to))
                    elif op == 'br':
                        # keep the BACKWARD jump conditional: cbmc resets a loop's unwind counter only when a backward goto is not taken
                        def split(to):
                            e_ = edge(to)
                            if e_.startswith('{'): return e_[1:e_.rindex('goto')], 'goto L_%s;' % cid(to)
                            return '', e_
                        ct, gt = split(i.t); cf_, gf = split(i.f)
                        bi = rpo_idx[b]; tb = rpo_idx[i.t] <= bi; fb = rpo_idx[i.f] <= bi
                        nbr[0] += 1; cn = 'c_%d' % nbr[0]
                        cdecl.append(cn)
                        o.append('  %s = %s; if (%s) { %s } else { %s }' % (cn, V(i.c, IntT(1)), cn, ct, cf_))
                        if fb and not tb: o.append('    if (!%s) %s %s' % (cn, gf, gt))
                        else: o.append('    if (%s) %s %s' % (cn, gt, gf))
                    else:
                        o.append('  switch (%s) {' % V(i.v, i.ty))
                        bits = m.resolve(i.ty).bits
                        for cv, l in i.cases: o.append('    case %dULL: %s' % (cv & ((1 << bits) - 1), edge(l)))
                        o.append('    default: %s }' % edge(i.default))
                elif op == 'ret':
                    if step: o.append('  %s_done = 1; %s_pc = -1; return;' % (SN, SN))
                    else: o.append('  return %s;' % (V(i.v, i.ty) if i.v is not None else ''))
                elif op == 'landingpad': o.append('  __CPROVER_assume(0);')
                elif op == 'unreachable': o.append('  __CPROVER_assume(0);' + (' return;' if isinstance(rty, VoidT) else ''))
                elif op == 'fence': pass
                elif op == 'call':
                    nm = i.callee[1] if i.callee[0] == 'glob' else None
                    args = [V(a, t) for (t, a, bv) in i.args if not isinstance(t, VoidT)]
                    e = None
                    if nm is None:
                        cands = s.indirect.get(fname)
                        if not cands: raise Unencodable('indirect call in %s' % fname)
                        # dispatch over the stated candidate set; anything else is a failed assertion
                        fp = V(i.callee, None); parts = []
                        for cn in cands:
                            s.called.add(cn)
                            call = '%s(%s)' % (cid(s.redirect.get(cn, cn)), ', '.join(args))
                            if d and not isinstance(i.rty, VoidT): call = '%s = %s' % (d, call)
                            parts.append('if ((void*)%s == (void*)&%s) { %s; }' % (fp, cid(s.redirect.get(cn, cn)), call))
                        o.append('  ' + ' else '.join(parts) + ' else { __CPROVER_assert(0, "indirect call target outside stated set"); __CPROVER_assume(0); }')
                        if i.normal is not None: o.append('  goto L_%s;' % cid(i.normal))
                        continue
                    nm = s.redirect.get(nm, nm)
                    if nm.startswith('@llvm.lifetime') or nm.startswith('@llvm.dbg') or nm.startswith('@llvm.experimental.noalias') or nm == '@llvm.assume' or nm.startswith('@llvm.invariant'): e = ''
                    elif nm.startswith('@llvm.memcpy') or nm.startswith('@llvm.memmove'): e = 'memmove(%s, %s, %s)' % tuple(args[:3])
                    elif nm.startswith('@llvm.memset'): e = 'memset(%s, %s, %s)' % tuple(args[:3])
                    elif nm in INTRIN_MATH: e = '%s(%s)' % (INTRIN_MATH[nm], ', '.join(args))
                    elif nm.startswith('@llvm.umax') or nm.startswith('@llvm.smax') or nm.startswith('@llvm.umin') or nm.startswith('@llvm.smin'):
                        ty = i.args[0][0]; a0, a1 = args
                        if 'smax' in nm or 'smin' in nm: c0, c1 = sx(a0, ty), sx(a1, ty)
                        else: c0, c1 = a0, a1
                        e = '(%s %s %s ? %s : %s)' % (c0, '>' if 'max' in nm else '<', c1, a0, a1)
                    elif nm.startswith('@llvm.abs.'):
                        ty = i.args[0][0]; e = '(%s < 0 ? (%s)(0 - %s) : %s)' % (sx(args[0], ty), s.ctype(ty), args[0], args[0])
                    elif nm.startswith('@llvm.umul.with.overflow'):
                        s.helpers.add('umulo'); e = 'verif_umulo(%s, %s)' % tuple(args)
                    elif nm.startswith('@llvm.ctpop.'):
                        ty = i.args[0][0]; e = '(%s)__builtin_popcountll((unsigned long long)%s)' % (s.ctype(ty), args[0])
                    elif nm.startswith('@llvm.ctlz.') or nm.startswith('@llvm.cttz.'):
                        ty = i.args[0][0]; b_, w_ = width(ty)
                        if 'ctlz' in nm: e = '(%s)(%s == 0 ? %d : __builtin_clzll((unsigned long long)%s) - %d)' % (s.ctype(ty), args[0], b_, args[0], 64 - b_)
                        else: e = '(%s)(%s == 0 ? %d : __builtin_ctzll((unsigned long long)%s))' % (s.ctype(ty), args[0], b_, args[0])
                    elif nm.startswith('@llvm.fsh') or nm.startswith('@llvm.bswap'):
                        raise Unencodable('intrinsic %s in %s' % (nm, fname))
                    elif nm in ('@_Znwm', '@_Znam'):
                        # typed allocation when the result is immediately cast to T* and the size is sizeof(T) (cbmc then models a T object, not a byte array)
                        e = 'verif_malloc(%s)' % args[0]
                        blk_ins = F.blocks[b]; k_ = blk_ins.index(i)
                        if i.args[0][1][0] == 'int':
                            for j_ in blk_ins[k_ + 1:k_ + 6]:
                                if j_.op == 'bitcast' and j_.a == ('reg', i.dest):
                                    tt_ = m.resolve(j_.tt)
                                    if isinstance(tt_, PtrT) and isinstance(m.resolve(tt_.to), StructT) and m.size(tt_.to) == i.args[0][1][1]:
                                        ct_ = s.ctype(tt_.to); s.helpers.add('tmalloc'); e = '(void*)((%s*)malloc(sizeof(%s)))' % (ct_, ct_); typed_new = d
                                    break
                    elif nm in ('@_ZdlPv', '@_ZdaPv'): e = 'free(%s)' % args[0]
                    elif nm == '@__verif_check': e = '__CPROVER_assert(%s, "verif_check")' % args[0]
                    elif nm.startswith('@nondet_') and nm not in s.m.funcs:
                        s.nondets.add(nm); s.called.add(nm); e = 'verif_nd_%s()' % cid(nm)
                    else: e = '%s(%s)' % (cid(nm), ', '.join(args)); s.called.add(nm)
                    if e:
                        if d and not isinstance(i.rty, VoidT):
                            if isinstance(s.m.resolve(i.rty), (StructT, ArrT)): o.append('  %s = %s;' % (d, e))
                            else: o.append('  %s = (%s)%s;' % (d, s.ctype(i.rty), e))
                            if e.startswith('(void*)((') and 'malloc(sizeof' in e: o.append('  __CPROVER_assume(%s != 0);' % d)
                        else: o.append('  %s;' % e)
                    if i.normal is not None:
                        o.append('  goto L_%s;' % cid(i.normal))
                elif op == 'cmpxchg':
                    if step: o.append(yield_point())
                    ct = s.ctype(i.ty)
                    o.append('  __CPROVER_atomic_begin(); %s.f0 = *(%s *)%s; %s.f1 = (%s.f0 == %s); if (%s.f1) *(%s *)%s = %s; __CPROVER_atomic_end();' %
                             (d, ct, V(i.a, None), d, d, V(i.cmp, i.ty), d, ct, V(i.a, None), V(i.new, i.ty)))
                elif op == 'atomicrmw':
                    if step: o.append(yield_point())
                    ct = s.ctype(i.ty)
                    if i.rmw == 'xchg': upd = V(i.v, i.ty)
                    else:
                        c = {'add': '+', 'sub': '-', 'and': '&', 'or': '|', 'xor': '^'}[i.rmw]; upd = '(%s)(%s %s %s)' % (ct, d, c, V(i.v, i.ty))
                    o.append('  __CPROVER_atomic_begin(); %s = *(%s *)%s; *(%s *)%s = %s; __CPROVER_atomic_end();' %
                             (d, ct, V(i.a, None), ct, V(i.a, None), upd))
                elif op == 'extractvalue':
                    t = m.resolve(i.ty); acc = V(i.a, i.ty)
                    for k in i.idx:
                        t = m.resolve(t)
                        acc += ('.f%d' % k) if isinstance(t, StructT) else ('.e[%d]' % k)
                        t = t.els[k] if isinstance(t, StructT) else t.el
                    o.append('  %s = %s;' % (d, acc))
                elif op == 'insertvalue':
                    t = m.resolve(i.ty); acc = d
                    o.append('  %s = %s;' % (d, V(i.a, i.ty)))
                    for k in i.idx:
                        t = m.resolve(t)
                        acc += ('.f%d' % k) if isinstance(t, StructT) else ('.e[%d]' % k)
                        t = t.els[k] if isinstance(t, StructT) else t.el
                    o.append('  %s = %s;' % (acc, V(i.v, i.vt)))
                else: raise Exception('emit %s' % op)
        if step: o.append('  default: return; }')
        o.append('}')
        for dn, ct in phitmp.items(): o.insert(1, '  %s%s t_%s;' % (st, ct, dn))
        if cdecl: o.insert(1, '  %sunsigned char %s;' % (st, ', '.join(cdecl)))
        if step:
            s.step_info[fname] = nyield[0]
            o.insert(0, 'int %s_pc; int %s_done; /* step machine of %s: %d yield points */' % (SN, SN, fname, nyield[0]))
            # a callee that itself performs atomic operations would run them without a scheduling point: refuse
            for b2 in F.order:
                for i2 in F.blocks[b2]:
                    if i2.op == 'call' and i2.callee[0] == 'glob' and i2.callee[1] in s.m.funcs:
                        for cf in reachable(s.m, [i2.callee[1]])[2].values():
                            for b3 in cf.order:
                                for i3 in cf.blocks[b3]:
                                    if i3.op in ('cmpxchg', 'atomicrmw') or getattr(i3, 'atomic', False): raise Unencodable('step function %s calls %s which contains atomic operations (not inlined)' % (fname, i2.callee[1]))
        return '\n'.join(o)
    def allowed_external(s, f):
        n = f[1:]
        return (f in LIBM or n.startswith('nondet_') or n.startswith('__CPROVER') or n.startswith('__verif_') or f in s.allow_ext
                or n.startswith('llvm.') or f in ('@_Znwm', '@_Znam', '@_ZdlPv', '@_ZdaPv', '@memcpy', '@memset', '@memmove', '@memcmp', '@strlen', '@abort', '@free', '@malloc'))
    def run(s):
        s.F = {}; s.called = set(); s.used_globals = set(); s.nondets = set(); s.step_info = {}
        roots = [s.redirect.get(r, r) for r in s.roots]
        extra = set()
        for fn, cands in s.indirect.items():
            for c in cands: extra.add(s.redirect.get(c, c))
        # reachability honouring redirects
        seen = []; work = list(roots) + sorted(extra); ext = set()
        while work:
            f = work.pop(); f = s.redirect.get(f, f)
            if f in seen: continue
            if f not in s.m.funcs: ext.add(f); continue
            seen.append(f); F = Func(s.m, f); s.F[f] = F
            for b in F.order:
                for i in F.blocks[b]:
                    if i.op == 'call' and i.callee[0] == 'glob': work.append(i.callee[1])
                    for a in getattr(i, 'args', []) or []:
                        if a[1][0] == 'glob' and (a[1][1] in s.m.funcs): work.append(a[1][1])
                    if i.op == 'store' and i.v[0] == 'glob' and i.v[1] in s.m.funcs: work.append(i.v[1])
        bad = sorted(f for f in ext if not s.allowed_external(f))
        if bad: raise Unencodable('unencodable call(s) without IR and without stub: %s' % ' '.join(bad))
        s.functions = seen; s.externals = sorted(ext)
        bodies = [s.emit_func(f) for f in seen]
        protos = []
        for f in seen:
            F = s.F[f]
            protos.append('%s %s%s(%s);' % (s.ctype(ret_type(s.m, f)), cid(f), '_step' if f in s.step_funcs else '', ', '.join(s.ctype(ty) for ty, nm, bv in F.params) or 'void'))
        for f in sorted(ext):
            n = f[1:]
            if f.startswith('@llvm.') or f in ('@_Znwm', '@_Znam', '@_ZdlPv', '@_ZdaPv') or f not in s.m.decl_lines: continue
            if n.startswith('__CPROVER') or f in LIBM or f in ('@memcpy', '@memset', '@memmove', '@memcmp', '@strlen', '@abort', '@free', '@malloc') or f in ('@__verif_check', '@__verif_error_hook', '@__verif_fork_u') or f in s.allow_ext: continue
            rt = ret_type(s.m, f); pts = [s.ctype(t) for t in decl_param_types(s.m, f)]
            protos.append('%s %s(%s);' % (s.ctype(rt), cid(f), ', '.join(pts) or 'void'))
        gl = []
        done = set()
        while s.used_globals - done:
            for g in sorted(s.used_globals - done):
                done.add(g)
                init = s.m.globals[g]
                mm = re.search(r'(?:constant|global) (.*?)(?:, comdat)?(?:, align \d+)?$', init)
                p = P(tokenize(mm.group(1))); ty = p.type()
                if ' external ' in ' ' + init or p.peek() is None:
                    gl.append('%s g_%s;' % (s.ctype(ty), cid(g))); continue
                v = operand(p, ty)
                gl.append('%s g_%s = %s;' % (s.ctype(ty), cid(g), s.cinit(v, ty)))
        pre = ['#include <stdint.h>', '#include <stddef.h>', '#include <string.h>', '#include <stdlib.h>', '#include <math.h>',
               '#ifndef __CPROVER__', '#include "native_prelude.h"', '#endif',
               'static void *verif_malloc(size_t n){ void *p = malloc(n); __CPROVER_assume(p != 0); return p; }']
        nd = ['uint64_t verif_nd_log; double verif_nd_logd;']
        if '@__verif_fork_u' in ext: nd.append('#ifdef __CPROVER__\nunsigned long nondet_ulong(void); unsigned long __verif_fork_u(unsigned long lo, unsigned long hi){ unsigned long v = nondet_ulong(); verif_nd_log = v; __CPROVER_assume(v >= lo && v <= hi); return v; }\n#else\nunsigned long __verif_fork_u(unsigned long lo, unsigned long hi);\n#endif')
        if '@__verif_error_hook' in ext: nd.append('#ifdef __CPROVER__\nvoid __verif_error_hook(void){}\n#else\nvoid __verif_error_hook(void);\n#endif')
        for f in sorted(s.allow_ext):
            if f in ext and f in s.m.decl_lines:
                rt = ret_type(s.m, f); pts = [s.ctype(t) for t in decl_param_types(s.m, f)]
                body = '' if isinstance(rt, VoidT) else '%s r; return r;' % s.ctype(rt)
                nd.append('%s %s(%s){ %s } /* stated nondeterministic stub */' % (s.ctype(rt), cid(f), ', '.join('%s a%d' % (t, k) for k, t in enumerate(pts)) or 'void', body))
        for f in sorted(s.nondets):
            rt = ret_type(s.m, f); ct = s.ctype(rt)
            nd.append('%s %s(void); static %s verif_nd_%s(void){ %s v = %s(); %s = v; return v; }' % (ct, cid(f), ct, cid(f), ct, cid(f), 'verif_nd_logd' if isinstance(s.m.resolve(rt), DblT) else 'verif_nd_log'))
        protos = nd + protos
        if 'umulo' in s.helpers:
            ct = s.ctype(StructT([IntT(64), IntT(1)]))
            protos.insert(0, 'static %s verif_umulo(uint64_t a, uint64_t b){ %s r; r.f0 = a * b; r.f1 = (a != 0 && r.f0 / a != b); return r; }' % (ct, ct))
        if 'bits' in s.helpers:
            protos.insert(0, 'static uint64_t verif_d2u(double d){ uint64_t u; memcpy(&u, &d, 8); return u; } static double verif_u2d(uint64_t u){ double d; memcpy(&d, &u, 8); return d; }')
        return '\n'.join(pre + [s.tdecl[k] for k in s.torder if s.tdecl[k]] + ['/* externals: %s */' % ' '.join(sorted(ext))] + protos + gl + bodies)
    def cinit(s, v, ty):
        t = s.m.resolve(ty)
        if v[0] == 'carr': return '{{%s}}' % ', '.join(s.cinit(e, t.el) for e in v[1])
        if v[0] == 'cstruct': return '{%s}' % ', '.join(s.cinit(e, et) for e, et in zip(v[1], t.els))
        if v[0] == 'int': return str(v[1] & ((1 << t.bits) - 1)) + 'ULL'
        if v[0] == 'dbl': return v[1].hex()
        if v[0] == 'zero': return '{0}' if isinstance(t, (StructT, ArrT)) else '0'
        if v[0] == 'undef': return '{0}' if isinstance(t, (StructT, ArrT)) else '0'
        if v[0] == 'cstr':
            raw = v[1][2:-1]; bs = []; k = 0
            while k < len(raw):
                if raw[k] == '\\': bs.append(int(raw[k + 1:k + 3], 16)); k += 3
                else: bs.append(ord(raw[k])); k += 1
            return '{{%s}}' % ', '.join(str(x) for x in bs)
        if v[0] == 'glob':
            n = v[1]
            if n in s.m.funcs or n in s.m.decls_all: return '(void*)&%s' % cid(s.redirect.get(n, n))
            s.used_globals.add(n); return '(void*)&g_%s' % cid(n)
        if v[0] == 'cgep': return '(void*)' + s.val(v, ty)
        raise Exception('cinit %r' % (v,))

def translate(ll_path, roots, redirect=None, allow_ext=(), indirect=None, step_funcs=()):
    m = parse_module(ll_path)
    g = CGen(m, roots, redirect, allow_ext, indirect, step_funcs)
    code = g.run()
    return code, g

if __name__ == '__main__':
    path = sys.argv[1]; roots = ['@' + r for r in sys.argv[2].split(',')]
    code, g = translate(path, roots)
    sys.stdout.write(code + '\n')
    sys.stderr.write('functions: %d externals: %s\n' % (len(g.functions), g.externals))
