// C07-G1 / C03-T3: REAL DensitySubGridCreator::create_subgrid wiring and REAL make_hydro_tasks / set_dependencies / reset_hydro_tasks
#include "TaskBasedRadiationHydrodynamicsSimulation.cpp"
extern "C" {
#ifndef NX
#define NX 2
#define NY 1
#define NZ 1
#endif
#define NSUB (NX * NY * NZ)
#define NTASK (18 * NSUB)
typedef DensitySubGridCreator< HydroDensitySubGrid > Creator;
typedef ThreadSafeVector< Task > TSV;
// light initialiser replacing the HydroDensitySubGrid constructor (by mangled name): only what the wiring / task graph reads
__attribute__((noinline)) void stub_subgrid_ctor(HydroDensitySubGrid *self, const double *box, const CoordinateVector< int_fast32_t > ncell) {
  self->_number_of_cells[0] = ncell[0]; self->_number_of_cells[1] = ncell[1]; self->_number_of_cells[2] = ncell[2]; self->_number_of_cells[3] = ncell[1] * ncell[2];
  self->_dependency._lock.set(false);
  for (int i = 0; i < 18; ++i) self->_hydro_tasks[i] = 999999;
}
// typed storage without running constructors (unions with empty ctor/dtor): cbmc then models structs field-wise, not as byte arrays
union UC { Creator c; UC() {} ~UC() {} }; union UV { TSV v; UV() {} ~UV() {} }; union UT { Task t[NTASK]; UT() {} ~UT() {} }; union US { HydroDensitySubGrid s[NSUB]; US() {} ~US() {} };
}
UC g_uc; UV g_uv; UT g_ut; US g_us;
extern "C" {
int n_new;
// operator new of the sub-grids is redirected here: typed static storage instead of an untyped heap block
__attribute__((noinline)) void *stub_new(unsigned long size) { __verif_check(size == sizeof(HydroDensitySubGrid) && n_new < NSUB); return &g_us.s[n_new++]; }
HydroDensitySubGrid *subs[NSUB]; AtomicValue<bool> slot_lock[NTASK]; bool per[3];
static inline Creator &creator(void) { return g_uc.c; }
static inline TSV &tvec(void) { return g_uv.v; }
static inline Task *T(void) { return g_ut.t; }
static inline void build_grid(void) {
  Creator &c = creator();
  const_cast<CoordinateVector< int_fast32_t > &>(c._number_of_subgrids) = CoordinateVector< int_fast32_t >(NX, NY, NZ);
  const_cast<CoordinateVector< int_fast32_t > &>(c._subgrid_number_of_cells) = CoordinateVector< int_fast32_t >(4, 4, 4);
#ifdef PFLAGS
  per[0] = (PFLAGS >> 2) & 1; per[1] = (PFLAGS >> 1) & 1; per[2] = PFLAGS & 1;                 // periodicity combination fixed per run (all 8 are run)
#else
  for (int k = 0; k < 3; ++k) per[k] = nondet_uchar() & 1;
#endif
  const_cast<CoordinateVector< bool > &>(c._periodicity) = CoordinateVector< bool >(per[0], per[1], per[2]);
  for (int i = 0; i < NSUB; ++i) subs[i] = c.create_subgrid(i);            // REAL wiring loop (constructor stubbed)
  *reinterpret_cast<HydroDensitySubGrid ***>(&c._subgrids) = subs;         // std::vector begin pointer (libstdc++ layout): get_subgrid(i) -> subs[i]
}
static inline int wrap(int v, int n, bool p, bool &out) { if (v < 0) { if (p) return n - 1; out = true; return 0; } if (v >= n) { if (p) return 0; out = true; return 0; } return v; }
// independent geometric reference for the neighbour of sub-grid g in direction (dx,dy,dz)
static inline uint32_t ref_ngb(int g, int dx, int dy, int dz) {
  int ix = g / (NY * NZ), iy = (g / NZ) % NY, iz = g % NZ; bool out = false;
  int cx = wrap(ix + dx, NX, per[0], out), cy = wrap(iy + dy, NY, per[1], out), cz = wrap(iz + dz, NZ, per[2], out);
  return out ? NEIGHBOUR_OUTSIDE : (uint32_t)((cx * NY + cy) * NZ + cz);
}
static inline void dir_signs(int c, int s[3]) {     // same reference as C03-T1
  s[0] = s[1] = s[2] = 0;
  if (c >= 1 && c <= 8) { int k = c - 1; s[0] = (k & 4) ? -1 : 1; s[1] = (k & 2) ? -1 : 1; s[2] = (k & 1) ? -1 : 1; }
  else if (c >= 9 && c <= 20) { int a = (c - 9) / 4, k = (c - 9) % 4; int u = (k & 2) ? -1 : 1, v = (k & 1) ? -1 : 1; if (a == 0) { s[1] = u; s[2] = v; } else if (a == 1) { s[0] = u; s[2] = v; } else { s[0] = u; s[1] = v; } }
  else if (c >= 21 && c <= 26) { int a = (c - 21) / 2; s[a] = ((c - 21) & 1) ? -1 : 1; }
}
// ---- C03-T3: neighbour wiring
__attribute__((noinline)) void h_t3_wiring(void) {
  build_grid();
  unsigned g = nondet_uint(), c = nondet_uint(); __CPROVER_assume(g < NSUB && c < 27);
  int s[3]; dir_signs(c, s);
  uint32_t n = subs[g]->get_neighbour(c);
  __verif_check(n == ref_ngb(g, s[0], s[1], s[2]));                                          // the geometric neighbour, OUTSIDE exactly at non-periodic walls
  if (n != NEIGHBOUR_OUTSIDE) { __verif_check(n < NSUB); __verif_check(subs[n]->get_neighbour(TravelDirections::output_to_input_direction(c)) == g); }   // mutual
  __verif_check(subs[g]->get_neighbour(0) == g);
}
// ---- C07-G1: constructed task graph
static inline int layer(int type) {
  switch (type) { case TASKTYPE_GRADIENTSWEEP_INTERNAL: case TASKTYPE_GRADIENTSWEEP_EXTERNAL_NEIGHBOUR: case TASKTYPE_GRADIENTSWEEP_EXTERNAL_BOUNDARY: return 0;
    case TASKTYPE_SLOPE_LIMITER: return 1; case TASKTYPE_PREDICT_PRIMITIVES: return 2;
    case TASKTYPE_FLUXSWEEP_INTERNAL: case TASKTYPE_FLUXSWEEP_EXTERNAL_NEIGHBOUR: case TASKTYPE_FLUXSWEEP_EXTERNAL_BOUNDARY: return 3;
    case TASKTYPE_UPDATE_CONSERVED: return 4; case TASKTYPE_UPDATE_PRIMITIVES: return 5; default: return -1; } }
static inline void build_graph(void) {
  build_grid();
  TSV &v = tvec(); const_cast<size_t &>(v._size) = NTASK; v._vector = T(); v._locks = slot_lock; v._number_taken.set(0); v._current_index.set(0); v._max_number_taken.set(0); v._total_number_taken.set(0);
  for (int i = 0; i < NTASK; ++i) { slot_lock[i].set(false); T()[i]._number_of_children = 0; T()[i]._dependency[0] = nullptr; T()[i]._dependency[1] = nullptr; T()[i]._buffer = 999999; T()[i]._subgrid = 999999; T()[i]._type = -1; T()[i]._interaction_direction = 0; T()[i]._number_of_unfinished_parents.set(77); }
  Creator &c = creator();
  for (unsigned i = 0; i < NSUB; ++i) make_hydro_tasks(v, i, c);
  for (unsigned i = 0; i < NSUB; ++i) set_dependencies(i, c, v);
  for (unsigned i = 0; i < NSUB; ++i) reset_hydro_tasks(v, *subs[i]);
}
__attribute__((noinline)) void h_g1_graph(void) {
  build_graph();
  const size_t ntask = tvec()._number_taken.value();
  __verif_check(ntask <= NTASK);
  size_t t = nondet_ulong(); __CPROVER_assume(t < ntask);
  // the probe task is selected by a chain of concrete-index comparisons (cheaper and more robust in cbmc than a symbolic index into an array of structs)
  union UP { Task t; UP() {} ~UP() {} } up;
  for (size_t i = 0; i < NTASK; ++i) if (i == t) __builtin_memcpy(&up.t, &T()[i], sizeof(Task));
  Task &tk = up.t;
  const int ty = tk.get_type(), ly = layer(ty);
  __verif_check(ly >= 0);                                                                       // a hydro task type
  const size_t g = tk.get_subgrid(); __verif_check(g < NSUB);
  // (1) children: at most 7, valid live indices, exactly one layer down
  __verif_check(tk.get_number_of_children() <= 7);
  for (unsigned k = 0; k < 7; ++k) if (k < tk.get_number_of_children()) { size_t ch = tk.get_child(k); __verif_check(ch < ntask); int cty = -1; for (size_t i = 0; i < NTASK; ++i) if (i == ch) cty = T()[i].get_type(); __verif_check(layer(cty) == ly + 1); }
  // (2) the counter set by reset_hydro_tasks equals the number of (parent, slot) entries pointing at t
  unsigned parents = 0;
  for (size_t p = 0; p < NTASK; ++p) if (p < ntask) for (unsigned k = 0; k < 7; ++k) if (k < T()[p].get_number_of_children() && T()[p].get_child(k) == t) ++parents;
  __verif_check(tk.get_number_of_unfinished_parents() == parents);
  // (3) tasks that can start immediately are exactly the gradient sweeps; the last layer has no children
  __verif_check((parents == 0) == (ly == 0));
  __verif_check((tk.get_number_of_children() == 0) == (ly == 5));
  // (4) lock set == sub-grids touched; two DIFFERENT locks ordered by sub-grid index for pair tasks
  ThreadLock *own = subs[g]->get_dependency();
  if (ty == TASKTYPE_GRADIENTSWEEP_EXTERNAL_NEIGHBOUR || ty == TASKTYPE_FLUXSWEEP_EXTERNAL_NEIGHBOUR) {
    const size_t b = tk.get_buffer(); __verif_check(b < NSUB);
    __verif_check(b == subs[g]->get_neighbour(tk.get_interaction_direction()));              // the partner is the neighbour in the task's direction
    ThreadLock *oth = subs[b]->get_dependency();
    if (b == g) {
      // periodic axis with a single sub-grid: the partner is the sub-grid itself -> exactly ONE lock (a task holding the same lock twice could never be locked)
      __verif_check(tk._dependency[0] == own && tk._dependency[1] == nullptr);
    } else {
      __verif_check((tk._dependency[0] == own && tk._dependency[1] == oth) || (tk._dependency[0] == oth && tk._dependency[1] == own));
      __verif_check(tk._dependency[0] != tk._dependency[1]);                                    // two different locks
      if (g < b) __verif_check(tk._dependency[0] == own); else __verif_check(tk._dependency[0] == oth);   // global lock order by sub-grid index (no dining philosophers)
    }
  } else {
    __verif_check(tk._dependency[0] == own && tk._dependency[1] == nullptr);
  }
}
// (5) every face of every sub-grid is covered exactly once per phase
__attribute__((noinline)) void h_g1_faces(void) {
  build_graph();
  unsigned g = nondet_uint(), ax = nondet_uint(); __CPROVER_assume(g < NSUB && ax < 3);
  const int dp = TRAVELDIRECTION_FACE_X_P + 2 * ax, dn = dp + 1;
  for (int phase = 0; phase < 2; ++phase) {
    const int sp = (phase ? 10 : 1) + 2 * ax, sn = sp + 1;
    const int TN = phase ? TASKTYPE_FLUXSWEEP_EXTERNAL_NEIGHBOUR : TASKTYPE_GRADIENTSWEEP_EXTERNAL_NEIGHBOUR, TB = phase ? TASKTYPE_FLUXSWEEP_EXTERNAL_BOUNDARY : TASKTYPE_GRADIENTSWEEP_EXTERNAL_BOUNDARY;
    const size_t tp = subs[g]->get_hydro_task(sp), tn = subs[g]->get_hydro_task(sn);
    const uint32_t np = subs[g]->get_neighbour(dp), nn = subs[g]->get_neighbour(dn);
    __verif_check(tp < NTASK && T()[tp].get_subgrid() == g && T()[tp].get_interaction_direction() == dp);
    if (np == NEIGHBOUR_OUTSIDE) __verif_check(T()[tp].get_type() == TB); else { __verif_check(T()[tp].get_type() == TN); __verif_check(T()[tp].get_buffer() == np); }
    if (nn == NEIGHBOUR_OUTSIDE) { __verif_check(tn < NTASK && T()[tn].get_type() == TB && T()[tn].get_subgrid() == g && T()[tn].get_interaction_direction() == dn); }
    else { __verif_check(tn == NO_TASK); size_t o = subs[nn]->get_hydro_task(sp); __verif_check(T()[o].get_type() == TN && T()[o].get_buffer() == g); }   // the lower face is covered by the lower neighbour's positive task
  }
}
// ---- C03-T4: duplicated sub-grids (REAL create_copies and update_original_counters; the copy constructor copies only what the wiring reads)
#define MAXCOPY 3                                   /* level <= 2: at most 3 copies per sub-grid */
#define NALL (NSUB * (1 + MAXCOPY))
union UCS { HydroDensitySubGrid s[NSUB * MAXCOPY]; UCS() {} ~UCS() {} };
}
UCS g_ucs;
extern "C" {
int n_copy_new; HydroDensitySubGrid *all_subs[NALL + 1]; size_t originals_store[NSUB * MAXCOPY + 1], copies_store[NSUB]; unsigned char levels_store[NSUB];
__attribute__((noinline)) void *stub_new_any(unsigned long size) {          // operator new: first the NSUB originals, then the copies (typed static storage)
  __verif_check(size == sizeof(HydroDensitySubGrid));
  if (n_new < NSUB) return &g_us.s[n_new++];
  __verif_check(n_copy_new < NSUB * MAXCOPY); return &g_ucs.s[n_copy_new++];
}
// the reallocation / length-error paths of std::vector are unreachable with preallocated storage: reaching one is a failed obligation
__attribute__((noinline)) void stub_throw0(void) { __verif_check(0); __CPROVER_assume(0); }
__attribute__((noinline)) void stub_throw1(const char *) { __verif_check(0); __CPROVER_assume(0); }
__attribute__((noinline)) void stub_subgrid_copy_ctor(HydroDensitySubGrid *self, const HydroDensitySubGrid *other) {
  for (int k = 0; k < 4; ++k) self->_number_of_cells[k] = other->_number_of_cells[k];
  for (int k = 0; k < TRAVELDIRECTION_NUMBER; ++k) self->_ngbs[k] = other->_ngbs[k];
}
int fold_calls, fold_hits, fold_bad; const DensitySubGrid *fold_probe_copy, *fold_probe_orig;
__attribute__((noinline)) void stub_update_intensities(DensitySubGrid *self, const DensitySubGrid *copy) {
  ++fold_calls; if (copy == fold_probe_copy) { ++fold_hits; if (self != fold_probe_orig) ++fold_bad; }
}
struct VecH { HydroDensitySubGrid **b, **e, **c; }; struct VecS { size_t *b, *e, *c; }; struct VecU { unsigned char *b, *e, *c; };
__attribute__((noinline)) void h_t4_copies(void) {
  build_grid();
  Creator &c = creator();
  // the three std::vector members given by begin / end / capacity pointers (libstdc++ layout), with room for every copy: push_back never reallocates
  for (int i = 0; i < NSUB; ++i) { all_subs[i] = subs[i]; copies_store[i] = 0xffffffff; }
  VecH *vs = reinterpret_cast<VecH *>(&c._subgrids); vs->b = all_subs; vs->e = all_subs + NSUB; vs->c = all_subs + NALL;
  VecS *vo = reinterpret_cast<VecS *>(&c._originals); vo->b = originals_store; vo->e = originals_store; vo->c = originals_store + NSUB * MAXCOPY;
  VecS *vc = reinterpret_cast<VecS *>(&c._copies); vc->b = copies_store; vc->e = copies_store + NSUB; vc->c = copies_store + NSUB;
  unsigned total = NSUB;
#ifdef LEVELS
  { int code = LEVELS; for (int i = 0; i < NSUB; ++i) { levels_store[i] = code % 3; code /= 3; total += (1u << levels_store[i]) - 1; } }   // copy levels fixed per run (every assignment in {0,1,2}^NSUB is a separate run)
#else
  for (int i = 0; i < NSUB; ++i) { levels_store[i] = nondet_uchar(); __CPROVER_assume(levels_store[i] <= 2); total += (1u << levels_store[i]) - 1; }
#endif
  VecU lv; lv.b = levels_store; lv.e = levels_store + NSUB; lv.c = levels_store + NSUB;
  n_copy_new = 0;
  c.create_copies(*reinterpret_cast<std::vector< uint_fast8_t > *>(&lv));
  __verif_check(c.number_of_actual_subgrids() == total);                           // 2^level - 1 copies per sub-grid, nothing else
  __verif_check(vo->e == originals_store + (total - NSUB));
  // symbolic probe: copy number k of sub-grid i, direction j
  unsigned i = nondet_uint(), k = nondet_uint(), j = nondet_uint();
  __CPROVER_assume(i < NSUB && j < 27 && k >= 1 && k < (1u << levels_store[i]));
  const size_t copy = copies_store[i] + k - 1;
  __verif_check(copy >= NSUB && copy < total);
  __verif_check(originals_store[copy - NSUB] == i);                                 // the copy knows its original
  __verif_check(all_subs[copy]->get_neighbour(0) == copy);                          // its own index
  const uint32_t on = subs[i]->get_neighbour(j), cn = all_subs[copy]->get_neighbour(j);
  if (j > 0) {
    if (on == NEIGHBOUR_OUTSIDE) __verif_check(cn == NEIGHBOUR_OUTSIDE);            // a wall stays a wall
    else { __verif_check(cn < total);                                               // every neighbour of a duplicate is the true neighbour or a duplicate of it
      if (cn >= NSUB) __verif_check(originals_store[cn - NSUB] == on); else __verif_check(cn == on); }
  }
  // the originals keep their wiring
  __verif_check(subs[i]->get_neighbour(j) == on);
  // folding: every copy is folded into its own original exactly once
  fold_calls = fold_hits = fold_bad = 0; fold_probe_copy = all_subs[copy]; fold_probe_orig = subs[i];
  c.update_original_counters();
  __verif_check(fold_hits == 1 && fold_bad == 0);
  __verif_check(fold_calls == (int)(total - NSUB));
}
}
