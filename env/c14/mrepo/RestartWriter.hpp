#pragma once
#include <string>
extern "C" void __verif_open_trunc(const void*);
struct RestartWriter { RestartWriter(const std::string&f){ __verif_open_trunc(&f);} };
