#include "ThreadSafeVector.hpp"
extern "C" {
void __verif_check(int); void __CPROVER_atomic_begin(void); void __CPROVER_atomic_end(void);
int owner[4];
__attribute__((noinline)) ThreadSafeVector<size_t>* p1_new(size_t n){ return new ThreadSafeVector<size_t>(n); }
__attribute__((noinline)) void p1_worker(ThreadSafeVector<size_t>* v, int id){
  size_t i = v->get_free_element_safe();
  if (i < v->max_size()) {
    __CPROVER_atomic_begin(); __verif_check(owner[i]==0); owner[i]=id; __CPROVER_atomic_end();
    __CPROVER_atomic_begin(); __verif_check(owner[i]==id); owner[i]=0; __CPROVER_atomic_end();
    v->free_element(i);
  }
}
__attribute__((noinline)) size_t p1_taken(ThreadSafeVector<size_t>* v){ return v->get_number_of_active_elements(); }
}
