import os, sys
from vlib import *

def b_harnesses(tier):
    H = []
    groups = [(1, 2), (3, 3), (4, 4)]
    for lo, hi in groups:
        H.append(BHarness('V1_verner_ne%d_%d' % (lo, hi), 'c18_atomic.cpp', 'h_v1_verner', defs=['NZ_=4', 'NELO=%d' % lo, 'NEHI=%d' % hi, 'LOCN=8'], cflags=['-fopenmp'], timeout=1500, maxsteps=8000000, maxpaths=60000, split=4, strict=False,
            what='get_cross_section_verner(nz=4, ne, shell, E) on ARBITRARY table entries with the tables\' sign pattern: equals the published phfit2 fitting formula transcribed independently (same tables, same inner-shell edge OF THE ION), is >= 0, and is exactly 0 below the shell threshold',
            bound='element Z=4 tables (4x4x7x7 + 4x4x7 symbolic entries >= 0), ne in [%d,%d], shell 1..3, Ninn in {1,2}, Ntot in {2,3} enumerated, energy symbolic > 0; pow/sqrt uninterpreted with sign contracts' % (lo, hi)))
    H.append(BHarness('V2_rates_nonneg', 'c18_rates.cpp', 'h_v2_nonneg', cflags=['-fopenmp'], timeout=900, strict=True,
        what='VernerRecombinationRates::get_recombination_rate for each tracked ion: the returned rate is >= 0 at every temperature whatever the fit tables hold (dielectronic polynomials turn negative at high T: the final clamp catches them); no abort', bound='T in [10,1e9]; all table entries the ion reads arbitrary finite doubles; one path family per ion'))
    H.append(BHarness('V2_rates_hhe', 'c18_rates.cpp', 'h_v2_hhe', cflags=['-fopenmp'], timeout=900, strict=True, monotone=True,
        what='hydrogen and helium recombination rates are strictly positive and weakly decreasing in temperature (every operation of the fit is monotone: sqrt, +, *, /, pow in its base)', bound='10 <= T1 <= T2 <= 1e9; pow assumed monotone in the base for the fixed exponents 0.252, 1.748, 0.309, 1.691'))
    return H
def a_harnesses(tier):
    n = 8 if tier == 'quick' else 16
    return [AHarness('V3_locate', 'c18_atomic.cpp', 'h_v3_locate', defs=['NZ_=4', 'NELO=1', 'NEHI=1', 'LOCN=%d' % n], cflags=['-fopenmp'], unwind=n + 2, timeout=900,
        what='Utilities::locate on ANY strictly increasing table of length 2..%d and any x: returns a valid interval index; t[i] < x <= t[i+1] whenever t[0] < x <= t[n-1]; clamps to the first/last interval outside (so interpolated sampler output stays inside the tabulated range)' % n, bound='table length symbolic in [2,%d], all binary64 entries (bit-precise comparisons only)' % n)]

def run(tier, only=None):
    ev = Evidence('C18', tier); work = Work('C18')
    ev.assumptions += ['coefficient tables are read from data files at construction (ifstream): not encodable; the FORMULAE are checked for arbitrary table entries satisfying the sign pattern of the shipped tables (entries >= 0, y_0 free)']
    ev.outside += ['the shipped table VALUES and equality with published numbers', 'recombination and charge-transfer rates (V2): not built', '"follows its cumulative distribution" (statistical)', 'elements with Z > 14 special cases of phfit2']
    violations = []; broken = []
    try:
        hb = [h for h in b_harnesses(tier) if not only or h.name.startswith(only)]
        v, b = run_engine_b('C18', tier, hb, ev, work); violations += v; broken += b
        ha = [h for h in a_harnesses(tier) if not only or h.name.startswith(only)]
        v, b = run_engine_a('C18', tier, ha, ev, work); violations += v; broken += b
    except Broken as b:
        broken.append(str(b))
    work.clean()
    finish(ev, violations, '; '.join(broken) if broken else None)

def replay(path): return generic_replay(path, a_harnesses('thorough'))
