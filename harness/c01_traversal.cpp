// C01-H2: REAL PhotonTraversalTaskContext::execute (with the real PhotonTraversalThreadContext, MemorySpace, ThreadSafeVector<Task>):
// packet accounting of one traversal task from an arbitrary valid pool / sub-grid state.
// Substitutions (listed as stubs): DensitySubGrid::interact -> nondeterministic exit classification (its correctness is C02);
// cpucycle_tick -> arbitrary clock value (rdtsc).
#define CPUCYCLE_HPP
#define cpucycle_tick(t) { t = nondet_ulong(); }
#include "PhotonTraversalTaskContext.hpp"
#define B PHOTONBUFFER_SIZE
#define NBUF 8
#define NTASK 4
#ifndef LIVE1
#define LIVE1 5
#define LIVE2 21
#endif
typedef ThreadSafeVector< PhotonBuffer > TSVB; typedef ThreadSafeVector< Task > TSVT; typedef DensitySubGridCreator< DensitySubGrid > Creator;
union UM { MemorySpace m; UM() {} ~UM() {} }; union UB { PhotonBuffer b[NBUF]; UB() {} ~UB() {} };
union UT { TSVT v; UT() {} ~UT() {} }; union UTT { Task t[NTASK]; UTT() {} ~UTT() {} };
union UG { DensitySubGrid g[2]; UG() {} ~UG() {} }; union UC { Creator c; UC() {} ~UC() {} };
union UX { PhotonTraversalThreadContext x; UX() {} ~UX() {} }; union UCtx { PhotonTraversalTaskContext< DensitySubGrid > c; UCtx() {} ~UCtx() {} };
UM g_m; UB g_b; UT g_t; UTT g_tt; UG g_g; UC g_c; UX g_x; UCtx g_ctx;
extern "C" {
AtomicValue<bool> blocks[NBUF], tlocks[NTASK]; DensitySubGrid *subs[2]; AtomicValue< uint_fast32_t > done_counter;
int n_interact;
// exit classification of a packet: any of the 27 (C02 decides which one is right); the packet itself is left alone
__attribute__((noinline)) int_fast32_t stub_interact(DensitySubGrid *, PhotonPacket *, int_fast32_t) {
  ++n_interact; int r = nondet_int(); __CPROVER_assume(r >= 0 && r < TRAVELDIRECTION_NUMBER); return r;
}
__attribute__((noinline)) void h_h2_traversal(void) {
  TSVB &v = g_m.m._memory_space; PhotonBuffer *buf = g_b.b;
  const_cast<size_t &>(v._size) = NBUF; v._vector = buf; v._locks = blocks;
  // arbitrary valid pool: occupancy == flags set, free slots are empty (pool invariant, established by free_buffer: H1)
  int taken = 0; unsigned before = 0;
  for (int i = 0; i < NBUF; ++i) { bool l = nondet_uchar() & 1; blocks[i].set(l); taken += l; unsigned s = nondet_uint(); __CPROVER_assume(s < B); if (!l) s = 0; buf[i]._actual_size = s; before += s;
    buf[i]._subgrid_index = nondet_uint() & 1; buf[i]._direction = nondet_int(); __CPROVER_assume(buf[i]._direction >= 0 && buf[i]._direction < TRAVELDIRECTION_NUMBER); }
  v._number_taken.set(taken); v._current_index.set(nondet_ulong()); v._max_number_taken.set(taken); v._total_number_taken.set(0);
  // task space with free slots
  TSVT &tv = g_t.v; const_cast<size_t &>(tv._size) = NTASK; tv._vector = g_tt.t; tv._locks = tlocks;
  for (int i = 0; i < NTASK; ++i) tlocks[i].set(false);
  tv._number_taken.set(0); tv._current_index.set(nondet_ulong()); tv._max_number_taken.set(0); tv._total_number_taken.set(0);
  // two sub-grids: arbitrary neighbour table over {0, 1, OUTSIDE}; active buffers either none or a held, non-full buffer of the right neighbour
  subs[0] = &g_g.g[0]; subs[1] = &g_g.g[1]; *reinterpret_cast<DensitySubGrid ***>(&g_c.c._subgrids) = subs;
  DensitySubGrid &G = g_g.g[0];
  for (int d = 0; d < TRAVELDIRECTION_NUMBER; ++d) {
    // LIVE1 / LIVE2 (fixed per run) and the re-emission slot 0 are the directions that may have a neighbour; every other direction is a box wall
    unsigned char k = nondet_uchar(); const bool live = (d == LIVE1 || d == LIVE2);
    G._ngbs[d] = (!live || k % 3 == 2) ? NEIGHBOUR_OUTSIDE : (k % 3); G._active_buffers[d] = NEIGHBOUR_OUTSIDE; g_g.g[1]._active_buffers[d] = NEIGHBOUR_OUTSIDE; }
  G._ngbs[0] = 0;
  G._owning_thread = 0; g_g.g[1]._owning_thread = nondet_int() & 1; G._computational_cost = 0; G._dependency._lock.set(true);   // the task holds the sub-grid lock
  // one direction (symbolic) may already have a partially filled active buffer
  const unsigned ad = nondet_uint(), ab = nondet_uint();
  if (ad < TRAVELDIRECTION_NUMBER && ab < NBUF) { __CPROVER_assume(blocks[ab].value() && G._ngbs[ad] != NEIGHBOUR_OUTSIDE && buf[ab]._subgrid_index == G._ngbs[ad]); G._active_buffers[ad] = ab; }
  // the task's input buffer: held, belongs to sub-grid 0, n packets, not the active buffer
  const unsigned in = nondet_uint(); __CPROVER_assume(in < NBUF && blocks[in].value() && buf[in]._subgrid_index == 0 && !(ad < TRAVELDIRECTION_NUMBER && ab == in));
  const unsigned n = buf[in]._actual_size;
  __CPROVER_assume(taken + 3 <= NBUF);                                     // capacity not exhausted (stated precondition of the property)
  const bool reemit = nondet_uchar() & 1;
  const uint_fast32_t done0 = nondet_uint() & 0xffff; done_counter.set(done0);
  // the context object without running its constructor (no vtable needed: execute is called non-virtually); reference members are pointers in the object layout
  PhotonTraversalTaskContext< DensitySubGrid > &ctx = g_ctx.c;
  *reinterpret_cast<MemorySpace **>(&reinterpret_cast<char *>(&ctx)[8]) = &g_m.m;
  *reinterpret_cast<Creator **>(&reinterpret_cast<char *>(&ctx)[16]) = &g_c.c;
  *reinterpret_cast<TSVT **>(&reinterpret_cast<char *>(&ctx)[24]) = &tv;
  *reinterpret_cast<AtomicValue< uint_fast32_t > **>(&reinterpret_cast<char *>(&ctx)[32]) = &done_counter;
  ctx._statistics = nullptr; const_cast<bool &>(ctx._do_reemission) = reemit;
  Task task; task._buffer = in; task._subgrid = 0;
  uint_fast32_t tasks_to_add[TRAVELDIRECTION_NUMBER]; int_fast32_t queues_to_add[TRAVELDIRECTION_NUMBER];
  n_interact = 0;
  const uint_fast32_t nnew = ctx.PhotonTraversalTaskContext< DensitySubGrid >::execute(0, &g_x.x, tasks_to_add, queues_to_add, task);
  // ---- accounting
  __verif_check((unsigned)n_interact == n);                                // every packet of the buffer is traced exactly once
  unsigned after = 0; int taken_after = 0;
  for (int i = 0; i < NBUF; ++i) { if (blocks[i].value()) { ++taken_after; after += buf[i]._actual_size; } else __verif_check(buf[i]._actual_size == 0); }   // free slots stay empty
  const uint_fast32_t done1 = done_counter.value();
  __verif_check(done1 >= done0 && done1 - done0 <= n);
  __verif_check(after + (done1 - done0) == before);                        // conservation: packets in live buffers + packets terminated is unchanged
  __verif_check(!blocks[in].value());                                      // the input buffer is released (exactly once: it is empty and free)
  __verif_check((int)v._number_taken.value() == taken_after);              // pool occupancy counter exact
  // tasks: one per buffer that became full, each carrying a held, full buffer that is no longer anybody's active buffer
  __verif_check(nnew <= 3 && tv._number_taken.value() == nnew);
  for (unsigned k = 0; k < 3; ++k) if (k < nnew) {
    const uint_fast32_t ti = tasks_to_add[k]; __verif_check(ti < NTASK && tlocks[ti].value());
    const size_t bi = g_tt.t[ti]._buffer; __verif_check(bi < NBUF && blocks[bi].value() && buf[bi]._actual_size == B);
    __verif_check(g_tt.t[ti]._subgrid == buf[bi]._subgrid_index);
    for (int d = 0; d < TRAVELDIRECTION_NUMBER; ++d) __verif_check(G._active_buffers[d] != bi);
    if (g_tt.t[ti]._type == TASKTYPE_PHOTON_TRAVERSAL) { __verif_check(g_tt.t[ti]._dependency[0] == &subs[buf[bi]._subgrid_index]->_dependency); __verif_check(queues_to_add[k] == subs[buf[bi]._subgrid_index]->_owning_thread); }
    else { __verif_check(g_tt.t[ti]._type == TASKTYPE_PHOTON_REEMIT && queues_to_add[k] == -1 && reemit); }
  }
  // active buffers of the sub-grid: held, not full, addressed to the right neighbour through the opposite direction
  for (int d = 0; d < TRAVELDIRECTION_NUMBER; ++d) { const size_t a = G._active_buffers[d];
    if (a != NEIGHBOUR_OUTSIDE) { __verif_check(a < NBUF && blocks[a].value() && buf[a]._actual_size < B && G._ngbs[d] != NEIGHBOUR_OUTSIDE && buf[a]._subgrid_index == G._ngbs[d]);
      if (!(ad < TRAVELDIRECTION_NUMBER && (unsigned)d == ad)) __verif_check(buf[a]._direction == TravelDirections::output_to_input_direction(d)); } }
}
}
