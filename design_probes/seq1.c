#include <assert.h>
#include <stddef.h>
#include <stdint.h>
/* sequentialised model: each thread = step machine; one atomic op per step */
typedef struct { size_t cur, size, taken, maxtaken, total; unsigned char *locks; } Pool;
typedef struct { int pc; size_t idx, t, m; int id; int done; } Th;
Pool P; unsigned char locks[4]; int owner[4];
unsigned nondet_uint(void);
static void step(Th *T){
  switch(T->pc){
  case 0: T->t = P.taken; T->pc = (T->t < P.size) ? 1 : 99; break;                 /* load taken */
  case 1: T->idx = P.cur % P.size; P.cur++; T->pc = 2; break;                      /* fetch_add cursor */
  case 2: if (P.locks[T->idx]==0){ P.locks[T->idx]=1; T->pc=3; } else T->pc=1; break; /* CAS lock */
  case 3: P.taken++; T->t = P.taken; T->pc = 4; break;                             /* pre_increment */
  case 4: T->m = P.maxtaken; T->pc = (T->m < T->t) ? 5 : 6; break;                 /* max(): load */
  case 5: if (P.maxtaken==T->m){ P.maxtaken=T->t; T->pc=6; } else T->pc=4; break;  /* max(): CAS */
  case 6: P.total++; T->pc = 7; break;
  case 7: assert(owner[T->idx]==0); owner[T->idx]=T->id; T->pc=8; break;
  case 8: assert(owner[T->idx]==T->id); owner[T->idx]=0; T->pc=9; break;
  case 9: if (P.locks[T->idx]==1) P.locks[T->idx]=0; T->pc=10; break;              /* unlock CAS */
  case 10: P.taken--; T->pc=99; break;
  }
  if (T->pc==99) T->done=1;
}
int main(void){
  P.size=2; P.locks=locks; P.cur = (size_t)-2;  /* force wrap-around */
  Th th[NT]; for(int i=0;i<NT;i++){ th[i].pc=0; th[i].id=i+1; th[i].done=0; }
  for(int s=0;s<STEPS;s++){
    unsigned t = nondet_uint(); __CPROVER_assume(t<NT);
    if(t==0){ if(!th[0].done) step(&th[0]); } else if(t==1){ if(!th[1].done) step(&th[1]); } else { if(!th[NT-1].done) step(&th[NT-1]); }
  }
  int all=1; for(int i=0;i<NT;i++) all &= th[i].done;
  if(all){ assert(P.taken==0); assert(locks[0]==0&&locks[1]==0); }
#ifdef WITNESS
  assert(!all);
#endif
  return 0; }
