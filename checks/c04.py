import os, sys
from vlib import *

def _memo(E, key, n, prefix):
    import z3
    memo = E.__dict__.setdefault('stub_memo', {})
    if key not in memo: memo[key] = [z3.Real('%s%d_%d' % (prefix, len(memo), k)) for k in range(n)]
    return memo[key]
def _ids(E, xs):
    # z3 AST ids are unique only among live nodes: keep every key term alive
    keep = E.__dict__.setdefault('stub_keep', []); keep.extend(x for x in xs if hasattr(x, 'get_id'))
    return tuple(x.get_id() if hasattr(x, 'get_id') else x for x in xs)
def hook_riemann(E, nm, av):
    """Riemann solver = memoised nondeterministic function of its inputs (its correctness is C05): same inputs -> same flux"""
    import ir
    this, rhoL, uL, PL, rhoR, uR, PR, mflux, pflux, Eflux, normal, vface = av
    ld = lambda p, k: E.load((p[0], p[1] + 8 * k), ir.DblT())
    key = _ids(E, [rhoL, PL, rhoR, PR] + [ld(uL, k) for k in range(3)] + [ld(uR, k) for k in range(3)] + [ld(normal, k) for k in range(3)])
    out = _memo(E, key, 5, 'F')
    E.store(mflux, ir.DblT(), out[0]); E.store(Eflux, ir.DblT(), out[4])
    for k in range(3): E.store((pflux[0], pflux[1] + 8 * k), ir.DblT(), out[1 + k])
    return None
def hook_limit(E, nm, av):
    """slope limiter = memoised function of its four arguments (its internals are not part of the conservation clause)"""
    key = _ids(E, av)
    return _memo(E, key, 1, 'L')[0]
def _minmax(which):
    def f(E, nm, av):
        """std::min/std::max<double> (out of line under -fno-inline) as a value select instead of a branch: same value, no path split"""
        import ir
        a = E.load(av[0], ir.DblT()); b = E.load(av[1], ir.DblT())
        p = E.alloc(8); E.store(p, ir.DblT(), E.fp.fmax(a, b) if which == 'max' else E.fp.fmin(a, b)); return p
    return f
STUBS = {'~HLLCRiemannSolver14solve_for_flux': hook_riemann, '~Hydro5limitE': hook_limit, '~_ZSt3maxIdERKT_S2_S2_': _minmax('max'), '~_ZSt3minIdERKT_S2_S2_': _minmax('min')}

FLUX = '@_ZNK5Hydro19do_flux_calculationEhR14HydroVariablesS1_ddd'
GRAD = '@_ZNK5Hydro23do_gradient_calculationEiR14HydroVariablesS1_dPdS2_'

def b_harnesses(tier):
    H = []
    for d in ((0,) if tier == 'quick' else (0, 1, 2)):
        H.append(BHarness('F1_flux_application_dir%d' % d, 'c04_hydro.cpp', 'h_f1_flux_application', defs=['DIR=%d' % d, 'NMAXC=2'], noinline=True, stubs=STUBS, strict=True, cflags=['-fopenmp'], timeout=1400, maxpaths=40000, split=4, native_replay=True,
            what='Hydro::do_flux_calculation: the change applied to the right cell is minus the change applied to the left cell (bit for bit, 5 components, flux limiter active or not), and with arbitrary pending changes the same amount X is subtracted left and added right; one common limiter factor scales mass, momentum and energy flux',
            bound='direction %d; both states, gradients, dx, A, dt, gamma in (1,2] symbolic; Riemann solver and slope limiter = memoised nondeterministic functions; all limiter branches explored' % d))
    return H

def hook_limit_uf(E, nm, av):
    """F3: slope limiter = uninterpreted function of its four arguments plus the ground instances of its oddness and flatness
    limit(-x,-a,-b,f) == -limit(x,a,b,f) for this application (the lemma is decided on the real code by F3_limit_odd)"""
    import z3, irz
    f = E.fp.uf('limit', 4); x, a, b, w = [z3.simplify(v) for v in av]
    t = f(x, a, b, w)
    if E.fp.reg(t):
        E.fp.ax.append(f(z3.simplify(-x), z3.simplify(-a), z3.simplify(-b), w) == -t)
        E.fp.ax.append(z3.Implies(a == b, t == a))         # lemma F3_limit_flat
    return t
def hook_signbit(E, nm, av):
    import z3
    return z3.simplify(av[0] < 0)        # i1 result (dx != 0 is assumed by the harness, so -0.0 does not arise)
STUBS3 = {'~HLLCRiemannSolver14solve_for_flux': hook_riemann, '~Hydro5limitE': hook_limit_uf, '~_ZSt3maxIdERKT_S2_S2_': _minmax('max'), '~_ZSt3minIdERKT_S2_S2_': _minmax('min'), '~_ZSt7signbitd': hook_signbit}
def f3_harnesses(tier):
    H = [BHarness('F3_limit_odd', 'c04_ghost.cpp', 'h_f3_limit_odd', defs=['DIR=0'], strict=True, cflags=['-fopenmp'], timeout=900,
            what='lemma: the real slope limiter Hydro::limit is odd, limit(-x,-a,-b,1/2) == -limit(x,a,b,1/2), on every path (used as the only fact about the limiter in F3)', bound='x, a, b symbolic; all branches of limit')]
    H.append(BHarness('F3_limit_flat', 'c04_ghost.cpp', 'h_f3_limit_flat', defs=['DIR=0'], strict=True, cflags=['-fopenmp'], timeout=900,
            what='lemma: between equal neighbour values the real slope limiter returns the cell value, limit(x,a,a,1/2) == a, on every path', bound='x, a symbolic; all branches of limit'))
    for d in (0, 1, 2):
        H.append(BHarness('F3_reflective_wall_dir%d' % d, 'c04_ghost.cpp', 'h_f3_reflective', defs=['DIR=%d' % d], noinline=True, stubs=STUBS3, strict=True, cflags=['-fopenmp'], timeout=900, perturb=True,
            what='Hydro::do_ghost_flux_calculation with the real ReflectiveHydroBoundary: the face states handed to the Riemann solver are exact mirror images (equal density, pressure and tangential velocity, opposite normal velocity, unit normal along the wall axis), for lower and upper walls; exactly one solver call',
            bound='wall normal %d; cell state, all 15 gradients, dx (either sign), A, dt, gamma symbolic; slope limiter = uninterpreted function with the two facts proved on the real code by F3_limit_odd and F3_limit_flat, Riemann solver = memoised nondeterministic function' % d))
    return H

def f4_harnesses(tier):
    H = []
    for (nm, ent, what) in (('update_conserved', 'h_f4_update_conserved', 'HydroDensitySubGrid::update_conserved_variables on one cell: mass and total energy are >= 0 afterwards for ANY pending changes, gravity and energy terms (the positivity safeguard), every pending change and the energy term are reset to 0 (consumed exactly once)'),
                            ('set_primitive', 'h_f4_set_primitive', 'Hydro::set_primitive_variables: density and pressure >= 0 for any conserved state (negative energy, momentum larger than the thermal budget, velocity and sound-speed limiters active or not); a cell without mass gets the vacuum state'),
                            ('set_conserved', 'h_f4_set_conserved', 'Hydro::set_conserved_variables: mass and total energy >= 0 for any primitive state'),
                            ('predict', 'h_f4_predict', 'Hydro::predict_primitive_variables: density and pressure stay >= 0 through the half-step prediction for any gradients and time step')):
        H.append(BHarness('F4_' + nm, 'c04_hydro.cpp', ent, defs=['DIR=0', 'NMAXC=2'], strict=True, cflags=['-fopenmp'], timeout=900, stubs={'~_ZSt3maxIdERKT_S2_S2_': _minmax('max'), '~_ZSt3minIdERKT_S2_S2_': _minmax('min')},
            what=what, bound='one cell, every field a symbolic finite double of either sign; gamma in (1,2]; IEEE-UF sign reasoning (overflow to inf/NaN is outside: finite domain)'))
    H.append(BHarness('F5_gradient_pair', 'c04_hydro.cpp', 'h_f5_gradient_pair', defs=['DIR=1', 'NMAXC=2'], strict=True, cflags=['-fopenmp'], timeout=900, stubs={'~_ZSt3maxIdERKT_S2_S2_': _minmax('max'), '~_ZSt3minIdERKT_S2_S2_': _minmax('min')},
        what='Hydro::do_gradient_calculation: the face contribution 0.5 (W_L + W_R) / dx is added to the left cell and subtracted from the right cell as the SAME term, only in the gradient component along the face normal; each limiter window is widened by exactly the neighbour primitive (min/max), nothing else is touched', bound='direction y; both cells, limiter windows and 1/dx symbolic'))
    return H

SHAPES_Q = [(1, 1, 1), (2, 2, 2), (3, 2, 1), (1, 2, 3), (2, 3, 1)]
SHAPES_T = SHAPES_Q + [(2, 1, 1), (1, 2, 1), (1, 1, 2), (3, 3, 3), (2, 1, 3), (1, 3, 2), (3, 1, 2)]
def a_harnesses(tier):
    H = []
    for shp in (SHAPES_Q if tier == 'quick' else SHAPES_T):
        for grad in (False, True):
            tag = ('gradient' if grad else 'flux') + '_%dx%dx%d' % shp
            dd = ['DIR=0', 'NMAXC=3', 'NCX=%d' % shp[0], 'NCY=%d' % shp[1], 'NCZ=%d' % shp[2]] + (['GRADIENT'] if grad else [])
            common = dict(redirect={FLUX: '@stub_flux', GRAD: '@stub_grad'}, noinline=True, cflags=['-fopenmp'], native_replay=False, timeout=900, unwind=max(5, shp[0] * shp[1] * shp[2] + 3), witness=(shp == (2, 2, 2)))
            H.append(AHarness('F2_inner_%s' % tag, 'c04_hydro.cpp', 'h_f2_inner', defs=dd, **common,
                what='inner sweep visits every interior face of the block exactly once with the geometrically left cell as left argument, and nothing else (symbolic probe face; call count == number of interior faces)', bound='block of %dx%dx%d cells (non-cubic shapes included), probe face symbolic' % shp))
            H.append(AHarness('F2_outer_%s' % tag, 'c04_hydro.cpp', 'h_f2_outer', defs=dd, **common,
                what='outer sweep, for each of the 6 face directions: every boundary face pair exactly once - upper-wall cell of the left grid against the lower-wall cell of the right grid with EQUAL transverse indices (a split block computes the same cell pairs as a single block: C10-L1)', bound='two sub-grids of %dx%dx%d cells, direction and probe face symbolic' % shp))
    return H

def run(tier, only=None, pid='C04'):
    ev = Evidence(pid, tier); work = Work(pid)
    ev.stubs += ['Riemann solver and slope limiter: memoised nondeterministic functions (F1)', 'Hydro::do_flux_calculation / do_gradient_calculation: recording stubs with the same signatures (F2)']
    ev.outside += ['totals "up to round-off" over a whole grid, all layouts / thread counts (follows from F1+F2+C07 on paper)', 'positivity safeguards F4, ghost/reflective boundary F3, the 1.5 sound-speed wall clause, CFL']
    violations = []; broken = []
    try:
        hb = [h for h in b_harnesses(tier) + (f3_harnesses(tier) + f4_harnesses(tier) if pid == 'C04' else []) if not only or h.name.startswith(only)]
        v, b = run_engine_b(pid, tier, hb, ev, work); violations += v; broken += b
        ha = [h for h in a_harnesses(tier) if not only or h.name.startswith(only)]
        v, b = run_engine_a(pid, tier, ha, ev, work); violations += v; broken += b
    except Broken as b:
        broken.append(str(b))
    work.clean()
    finish(ev, violations, '; '.join(broken) if broken else None)

def replay(path): print('re-run the check'); return 0
