/* runtime for native executions of a harness (real C++ TU or translated C):
   nondet_* return successive 64-bit words of the replay file $VERIF_REPLAY
   (one hex word per line), __CPROVER_assume ends the run with status 3,
   a failed check ends it with status 1 and the line CHECK-FAILED. */
#include <stdint.h>
#include <stdio.h>
#include <stdlib.h>
#include <string.h>
static uint64_t words[1 << 16]; static int nwords = -1, pos = 0;
static void load(void){
  nwords = 0; const char *p = getenv("VERIF_REPLAY"); if (!p) return;
  FILE *f = fopen(p, "r"); if (!f) return; char line[128];
  while (fgets(line, sizeof line, f) && nwords < (1 << 16)) { if (line[0]=='#'||line[0]=='\n') continue; words[nwords++] = strtoull(line, 0, 16); }
  fclose(f);
}
static uint64_t next(void){ if (nwords < 0) load(); return pos < nwords ? words[pos++] : 0; }
int nondet_int(void){ return (int)next(); }
unsigned int nondet_uint(void){ return (unsigned)next(); }
long nondet_long(void){ return (long)next(); }
unsigned long nondet_ulong(void){ return next(); }
unsigned char nondet_uchar(void){ return (unsigned char)next(); }
double nondet_double(void){ uint64_t u = next(); double d; memcpy(&d, &u, 8); return d; }
void __CPROVER_assume(int c){ if (!c) { fflush(stdout); _Exit(3); } }
void __verif_check(int c){ if (!c) { printf("CHECK-FAILED\n"); fflush(stdout); _Exit(1); } }
void __verif_native_assert(int c, const char *m){ if (!c) { printf("CHECK-FAILED %s\n", m); fflush(stdout); _Exit(1); } }
void __verif_error_hook(void){ printf("cmac_error reached\n"); }
unsigned long __verif_fork_u(unsigned long lo, unsigned long hi){ uint64_t v = next(); if (v < lo || v > hi) { fflush(stdout); _Exit(3); } return v; }
double __verif_dyadic(unsigned long q, unsigned long bound){ double d = nondet_double(); double s = d; for (unsigned long i = 0; i < q; ++i) s *= 2.0; if (!(d >= 0 && s < (double)bound && s == (double)(unsigned long)s)) { fflush(stdout); _Exit(3); } return d; }
void __verif_mark(unsigned long x){ (void)x; }
