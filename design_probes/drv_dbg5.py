import sys, time, z3
sys.setrecursionlimit(10000)
from irz import *
m = parse_module(sys.argv[1])
names = ['gamma','rhoL','PL','rhoR','PR']
def setup(E):
    g = {n: z3.Real(n) for n in names}
    E.inputs = dict(g)
    def vec(nm, vals=None):
        p = E.alloc(24)
        for k in range(3):
            v = z3.Real('%s%d' % (nm, k)) if vals is None or vals[k] is None else vals[k]
            E.inputs['%s%d' % (nm, k)] = v
            E.store((p[0], 8 * k), DblT(), v)
        return p
    Z=z3.RealVal(0)
    uL = vec('uL',[None,Z,Z]); uR = vec('uR',[None,Z,Z]); vf = vec('vf',[Z,Z,Z])
    n = vec('n', [z3.RealVal(1), Z, Z])
    o1 = E.alloc(40); o2 = E.alloc(40)
    E.o1, E.o2 = o1, o2
    s = E.solver
    s.add(g['gamma'] > 1, g['gamma'] <= 2, g['rhoL'] > 0, g['rhoR'] > 0, g['PL'] > 0, g['PR'] > 0)
    return [g['gamma'], g['rhoL'], uL, g['PL'], g['rhoR'], uR, g['PR'], n, vf, o1, o2]
res = {'ok': 0, 'cex': []}
def on_path(E, ret):
    E.flush_axioms()
    BIG = z3.Q(1, 2**940)
    for x in E.ctx.tiny_sites: E.solver.add(z3.Or(x >= BIG, x <= -BIG))
    for t in E.ties: E.solver.add(z3.Not(t))
    outs1 = [as_real(E.load((E.o1[0], 8 * k), DblT())) for k in range(5)]
    outs2 = [as_real(E.load((E.o2[0], 8 * k), DblT())) for k in range(5)]
    for k,(a,b) in enumerate(zip(outs1,outs2)):
        E.solver.push(); E.solver.add(a != -b); r = E.solver.check()
        if r != z3.unsat:
            print('path', E.decisions, 'output', k, r); print('  o1 =', z3.simplify(a)); print('  o2 =', z3.simplify(b))
            res['cex'].append(k)
        else: res['ok'] += 1
        E.solver.pop()
st = explore(m, Ctx, setup, '@h_antisym', on_path)
print(st, res['ok'], len(res['cex']))
