// C17: the REAL ExactGeometricTests.hpp; big integers are the stub class above (mathematical integers in z3).
#include "ExactGeometricTests.hpp"
extern "C" {
typedef boost::multiprecision::int256_t BI;
static inline CoordinateVector<> pt(void) { double x = nondet_double(), y = nondet_double(), z = nondet_double(); return CoordinateVector<>(x, y, z); }
static inline int sgn(BI v) { return __bi_sgn(v.h); }
struct M3 { BI x, y, z; };
static inline M3 mant(const CoordinateVector<> &p) { M3 m; m.x = BI(ExactGeometricTests::get_mantissa(p.x())); m.y = BI(ExactGeometricTests::get_mantissa(p.y())); m.z = BI(ExactGeometricTests::get_mantissa(p.z())); return m; }
static inline BI det3(BI a, BI b, BI c, BI d, BI e, BI f, BI g, BI h, BI i) { return a * (e * i - f * h) - b * (d * i - f * g) + c * (d * h - e * g); }
// reference orientation determinant: | ax ay az 1 ; bx by bz 1 ; cx cy cz 1 ; dx dy dz 1 | expanded along the last column (no translation)
static inline BI ref_orient(M3 a, M3 b, M3 c, M3 d) {
  return det3(b.x, b.y, b.z, c.x, c.y, c.z, d.x, d.y, d.z) * BI(-1) + det3(a.x, a.y, a.z, c.x, c.y, c.z, d.x, d.y, d.z)
         - det3(a.x, a.y, a.z, b.x, b.y, b.z, d.x, d.y, d.z) + det3(a.x, a.y, a.z, b.x, b.y, b.z, c.x, c.y, c.z);
}
__attribute__((noinline)) void h_e1_orient(void) {
  CoordinateVector<> a = pt(), b = pt(), c = pt(), d = pt();
  int s = ExactGeometricTests::orient3d_exact(a, b, c, d);
  int r = sgn(ref_orient(mant(a), mant(b), mant(c), mant(d)));
  __verif_check(s == ORIENT_SIGN * r);                                 // the predicate IS the sign of the 4x4 orientation determinant
  __verif_check(ExactGeometricTests::orient3d_exact(b, a, c, d) == -s);  // odd permutations flip the sign
  __verif_check(ExactGeometricTests::orient3d_exact(a, c, b, d) == -s);
  __verif_check(ExactGeometricTests::orient3d_exact(a, b, d, c) == -s);
  __verif_check(ExactGeometricTests::orient3d_exact(b, c, a, d) == s);   // even permutations keep it
  __verif_check(ExactGeometricTests::orient3d_exact(b, a, d, c) == s);
}
// reference in-sphere determinant: rows (x, y, z, x^2+y^2+z^2, 1), translated by e only in the reference's own way:
// computed here as sum over the 4 points of +-(|p-e|^2) * orient-type minors written with det3 on differences to e
static inline BI n2(M3 p, M3 e) { BI x = p.x - e.x, y = p.y - e.y, z = p.z - e.z; return x * x + y * y + z * z; }
static inline BI minor(M3 p, M3 q, M3 r, M3 e) { return det3(p.x - e.x, p.y - e.y, p.z - e.z, q.x - e.x, q.y - e.y, q.z - e.z, r.x - e.x, r.y - e.y, r.z - e.z); }
static inline BI ref_insphere(M3 a, M3 b, M3 c, M3 d, M3 e) {
  // 4x4 determinant | p-e , |p-e|^2 | for p = a,b,c,d expanded along the last column
  return n2(d, e) * minor(a, b, c, e) - n2(c, e) * minor(a, b, d, e) + n2(b, e) * minor(a, c, d, e) - n2(a, e) * minor(b, c, d, e);
}
__attribute__((noinline)) void h_e1_insphere(void) {
  CoordinateVector<> a = pt(), b = pt(), c = pt(), d = pt(), e = pt();
  int s = ExactGeometricTests::insphere_exact(a, b, c, d, e);
  int r = sgn(ref_insphere(mant(a), mant(b), mant(c), mant(d), mant(e)));
  __verif_check(s == INSPHERE_SIGN * r);
  __verif_check(ExactGeometricTests::insphere_exact(b, a, c, d, e) == -s);
  __verif_check(ExactGeometricTests::insphere_exact(a, b, c, e, d) == -s);
  __verif_check(ExactGeometricTests::insphere_exact(b, c, a, d, e) == s);
}
// E2 (Engine A, bit-precise): for every double in [1,2) the extracted 52-bit field equals (x-1)*2^52 exactly, and is monotone
__attribute__((noinline)) void h_e2_mantissa(void) {
  double x = nondet_double(), y = nondet_double();
  __CPROVER_assume(x >= 1. && x < 2. && y >= 1. && y < 2.);
  uint64_t mx = ExactGeometricTests::get_mantissa(x), my = ExactGeometricTests::get_mantissa(y);
  __verif_check(mx < ((uint64_t)1 << 52));
  __verif_check((double)mx == (x - 1.) * 4503599627370496.);
  __verif_check((x < y) == (mx < my));
  __verif_check((x == y) == (mx == my));
}
}
