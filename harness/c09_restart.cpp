// C09: write -> typed tape -> restart constructor -> write for the restartable components (REAL classes, tape model of the I/O classes)
#define VERIF_TAPE_N 700
#include "tape/verif_tape.hpp"
#include "HydroDensitySubGrid.hpp"
#include "Box.hpp"
extern "C" {
int verif_tape_tag[VERIF_TAPE_N]; uint64_t verif_tape_u[VERIF_TAPE_N]; double verif_tape_d[VERIF_TAPE_N]; int verif_tape_wpos, verif_tape_rpos;
static inline void tape_reset(void) { verif_tape_wpos = verif_tape_rpos = 0; }
static inline void tapes_equal(int n1) {
  __verif_check(verif_tape_rpos == n1);                 // everything written was read back (no leftover, no over-read)
  __verif_check(verif_tape_wpos == 2 * n1);             // the second write produces the same number of items
  for (int k = 0; k < n1; ++k) { __verif_check(verif_tape_tag[k] == verif_tape_tag[n1 + k]); __verif_check(verif_tape_u[k] == verif_tape_u[n1 + k]); __verif_check(verif_tape_d[k] == verif_tape_d[n1 + k]); }
}
// IonizationVariables, HydroVariables, CoordinateVector, Box: all fields symbolic
__attribute__((noinline)) void h_r_ionization_variables(void) {
  IonizationVariables a;
  a.set_number_density(nondet_double()); a.set_temperature(nondet_double()); a.set_cosmic_ray_factor(nondet_double());
  for (int i = 0; i < NUMBER_OF_IONNAMES; ++i) { a._ionic_fractions[i] = nondet_double(); a._mean_intensity[i] = nondet_double(); }
  for (int i = 0; i < NUMBER_OF_REEMISSIONPROBABILITIES; ++i) a._reemission_probabilities[i] = nondet_double();
  for (int i = 0; i < NUMBER_OF_HEATINGTERMS; ++i) a._heating[i] = nondet_double();
  tape_reset(); RestartWriter w; a.write_restart_file(w); int n1 = verif_tape_wpos;
  RestartReader r; IonizationVariables b(r);
  __verif_check(b._number_density == a._number_density && b._temperature == a._temperature && b._cosmic_ray_factor == a._cosmic_ray_factor);
  for (int i = 0; i < NUMBER_OF_IONNAMES; ++i) __verif_check(b._ionic_fractions[i] == a._ionic_fractions[i] && b._mean_intensity[i] == a._mean_intensity[i]);
  for (int i = 0; i < NUMBER_OF_REEMISSIONPROBABILITIES; ++i) __verif_check(b._reemission_probabilities[i] == a._reemission_probabilities[i]);
  for (int i = 0; i < NUMBER_OF_HEATINGTERMS; ++i) __verif_check(b._heating[i] == a._heating[i]);
  b.write_restart_file(w); tapes_equal(n1);
}
__attribute__((noinline)) void h_r_hydro_variables(void) {
  HydroVariables a;
  for (int i = 0; i < 5; ++i) { a._primitives[i] = nondet_double(); a._conserved[i] = nondet_double(); a._delta_conserved[i] = nondet_double(); a._primitive_gradients[i] = CoordinateVector<>(nondet_double(), nondet_double(), nondet_double()); }
  a._gravitational_acceleration = CoordinateVector<>(nondet_double(), nondet_double(), nondet_double()); a._energy_rate_term = nondet_double(); a._energy_term = nondet_double();
  tape_reset(); RestartWriter w; a.write_restart_file(w); int n1 = verif_tape_wpos;
  RestartReader r; HydroVariables b(r);
  for (int i = 0; i < 5; ++i) { __verif_check(b._primitives[i] == a._primitives[i] && b._conserved[i] == a._conserved[i] && b._delta_conserved[i] == a._delta_conserved[i]);
    for (int k = 0; k < 3; ++k) __verif_check(b._primitive_gradients[i][k] == a._primitive_gradients[i][k]); }
  for (int k = 0; k < 3; ++k) __verif_check(b._gravitational_acceleration[k] == a._gravitational_acceleration[k]);
  __verif_check(b._energy_rate_term == a._energy_rate_term && b._energy_term == a._energy_term);
  b.write_restart_file(w); tapes_equal(n1);
}
__attribute__((noinline)) void h_r_box(void) {
  Box<> a(CoordinateVector<>(nondet_double(), nondet_double(), nondet_double()), CoordinateVector<>(nondet_double(), nondet_double(), nondet_double()));
  tape_reset(); RestartWriter w; a.write_restart_file(w); int n1 = verif_tape_wpos;
  RestartReader r; Box<> b(r);
  for (int k = 0; k < 3; ++k) __verif_check(b.get_anchor()[k] == a.get_anchor()[k] && b.get_sides()[k] == a.get_sides()[k]);
  b.write_restart_file(w); tapes_equal(n1);
}
// DensitySubGrid / HydroDensitySubGrid built by the ORDINARY constructor from a symbolic box: the restarted object equals the dumped
// one in every field the simulation reads, INCLUDING the derived ones (inverse cell size, inverse cell volume, areas, cell counts)
#ifndef NCX
#define NCX 1
#define NCY 1
#define NCZ 2
#endif
__attribute__((noinline)) void h_r_subgrid(void) {
  double box[6]; for (int k = 0; k < 6; ++k) box[k] = nondet_double();
  __CPROVER_assume(box[3] > 0. && box[4] > 0. && box[5] > 0.);
  HydroDensitySubGrid *a = new HydroDensitySubGrid(box, CoordinateVector< int_fast32_t >(NCX, NCY, NCZ));
  for (int i = 0; i < TRAVELDIRECTION_NUMBER; ++i) a->_ngbs[i] = nondet_uint();
  a->_owning_thread = nondet_int();
  const int nc = NCX * NCY * NCZ;
  for (int c = 0; c < nc; ++c) { a->_ionization_variables[c].set_number_density(nondet_double()); a->_ionization_variables[c].set_temperature(nondet_double()); a->_ionization_variables[c]._ionic_fractions[0] = nondet_double();
    a->_hydro_variables[c]._primitives[0] = nondet_double(); a->_hydro_variables[c]._conserved[4] = nondet_double(); }
  tape_reset(); RestartWriter w; a->HydroDensitySubGrid::write_restart_file(w); int n1 = verif_tape_wpos;
  RestartReader r; HydroDensitySubGrid *b = new HydroDensitySubGrid(r);
  for (int k = 0; k < 3; ++k) {
    __verif_check(b->_anchor[k] == a->_anchor[k]); __verif_check(b->_cell_size[k] == a->_cell_size[k]);
    __verif_check(b->_inv_cell_size[k] == a->_inv_cell_size[k]);                 // derived field: must be the SAME value the uninterrupted run uses (D3)
    __verif_check(b->_cell_areas[k] == a->_cell_areas[k]); __verif_check(b->_number_of_cells[k] == a->_number_of_cells[k]);
  }
  __verif_check(b->_number_of_cells[3] == a->_number_of_cells[3]);
  __verif_check(b->_cell_volume == a->_cell_volume); __verif_check(b->_inverse_cell_volume == a->_inverse_cell_volume);
  for (int i = 0; i < TRAVELDIRECTION_NUMBER; ++i) __verif_check(b->_ngbs[i] == a->_ngbs[i]);
  __verif_check(b->_owning_thread == a->_owning_thread);
  for (int c = 0; c < nc; ++c) { __verif_check(b->_ionization_variables[c]._number_density == a->_ionization_variables[c]._number_density); __verif_check(b->_hydro_variables[c]._conserved[4] == a->_hydro_variables[c]._conserved[4]);
    for (int q = 0; q < 10; ++q) __verif_check(b->_primitive_variable_limiters[10 * c + q] == a->_primitive_variable_limiters[10 * c + q]); }
  b->HydroDensitySubGrid::write_restart_file(w); tapes_equal(n1);
}
}
