/*******************************************************************************
 * This file is part of CMacIonize
 * Copyright (C) 2016 Bert Vandenbroucke (bert.vandenbroucke@gmail.com)
 *
 * CMacIonize is free software: you can redistribute it and/or modify
 * it under the terms of the GNU Affero General Public License as published by
 * the Free Software Foundation, either version 3 of the License, or
 * (at your option) any later version.
 *
 * CMacIonize is distributed in the hope that it will be useful,
 * but WITOUT ANY WARRANTY; without even the implied warranty of
 * MERCHANTABILITY or FITNESS FOR A PARTICULAR PURPOSE. See the
 * GNU Affero General Public License for more details.
 *
 * You should have received a copy of the GNU Affero General Public License
 * along with CMacIonize. If not, see <http://www.gnu.org/licenses/>.
 ******************************************************************************/

/**
 * @file VernerRecombinationRatesDataLocation.hpp
 *
 * @brief CMake configured file storing the location of the recombination rates
 * data file on the local system.
 *
 * This file should never be edited directly. Instead, edit
 * VernerRecombinationRatesDataLocation.hpp.in.
 *
 * @author Bert Vandenbroucke (bv7@st-andrews.ac.uk)
 */
#ifndef VERNERRECOMBINATIONRATESDATALOCATION_HPP
#define VERNERRECOMBINATIONRATESDATALOCATION_HPP

#define VERNERRECOMBINATIONRATESDATALOCATION                                   \
  "/repo/_build/data/verner_rec_data.txt"

#endif // VERNERRECOMBINATIONRATESDATALOCATION_HPP
