import os, sys
from vlib import *

def harnesses_b(tier):
    H = [BHarness('K1_interleave', 'c16_grid.cpp', 'h_k1_interleave', timeout=900, maxsteps=2000000,
        what='MortonKeyGenerator::get_key == bit interleave (x -> bit 3i+2, y -> 3i+1, z -> 3i) of the three 21-bit integer coordinates derived from the position, for symbolic box and position; hence injective and order preserving per octant on integer coordinates',
        bound='box anchor/sides/position symbolic reals, coordinates <= 0x1fffff; 21-iteration loop fully unrolled'),
         BHarness('K3_wrap', 'c16_grid.cpp', 'h_k3_wrap', timeout=900, maxpaths=60000, split=4,
            what='is_inside: periodic axes wrap index -1 -> n-1 and n -> 0 and shift the position by exactly one box side (same term), non-periodic axes report outside exactly when the index leaves [0,n)', bound='n per axis in [1,1000], index in [-1,n], all 8 periodicity combinations (symbolic)'),
         BHarness('K3_wall', 'c16_grid.cpp', 'h_k3_wall', timeout=900, maxpaths=60000, split=4, strict=True,
            what='get_wall_intersection from inside a cell: next_index non-zero on at least one axis, only with the sign of the direction component, zero for zero components; ds not negative', bound='cell and origin symbolic, direction components in [-1,1] not all zero')]
    H.append(BHarness('K2_amr_child', 'c16_amr.cpp', 'h_k2_child', timeout=900, maxpaths=4000, strict=True, split=2,
        what='AMRGridCell after one real refinement (create_all_cells): get_child(position) returns, on each axis independently, the child that starts at the parent mid-plane iff the position is above that axis\' own mid-plane (else the child at the parent anchor); children are half as wide; octant index i maps to the child with the anchor of octant i',
        bound='one refinement level; box anchor, sides (>0) and position symbolic; all 8 octant paths'))
    H.append(BHarness('K2_amr_grandchild', 'c16_amr.cpp', 'h_k2_child2', timeout=900, maxpaths=4000, strict=True, split=2, tiers=('thorough',),
        what='AMRGridCell after two real refinement levels: descending twice with get_child(position) reaches the leaf whose box starts, on each axis, at the mid-plane of the selected level-1 cell iff the position is above it; sizes halve per level', bound='two refinement levels (72 cells); box and position symbolic; all 64 octant-pair paths'))
    return H
def harnesses_a(tier):
    return [AHarness('K3_longindex', 'c16_grid.cpp', 'h_k3_longindex', unwind=4, timeout=600, native_replay=False, what='get_long_index is the row-major bijection onto [0,nx*ny*nz) and get_indices inverts it', bound='n per axis in [1,8], every in-range index triple')]

def d8_known(work, ev, tier):
    h = AHarness('K3_index_strict', 'c16_grid.cpp', 'h_k3_index', unwind=4, defs=['NMAX=64', 'STRICT'], timeout=600)
    cf, mf, g = translate_harness(work, h)
    res = run_cbmc([cf, mf], unwind=4, timeout=600)
    base = {'wall_s': round(res.time, 1), 'rss_mb': res.rss_mb}
    what = 'a position in the half-open box never gets cell index n'
    if res.status == 'success': ev.add('K3_index_strict', what, 'n<=64', 'discharged', res.solver_s, extra=base); return None, None
    if res.status != 'failed': ev.add('K3_index_strict', what, '', 'inconclusive', res.solver_s, extra=base); ev.notes.append('K3_index_strict: cbmc ' + res.status); return None, None
    unw, povf, other = classify_failures(res)
    tr = [ws for (tp, ws) in res.traces if tp in set(f[0] for f in other)] or [res.nondet]
    words = tr[0]
    exe = work.path('c16_replay')
    if not os.path.exists(exe):
        fl = [f.replace('-std=c++', '-std=gnu++') for f in base_flags() if f not in ('-fno-vectorize', '-fno-slp-vectorize', '-fno-unroll-loops', '-Wno-everything', '-O1') and 'verif_env' not in f and f != '-include']
        rc, o, e, _, _ = sh(['g++'] + fl + ['-w', '-O1', '-fopenmp', '-DOMPI_SKIP_MPICXX', os.path.join(VERIF, 'harness', 'c16_replay.cpp'), '-o', exe], timeout=600)
        if rc: raise Broken('c16 replay build: ' + e[-1500:])
    n = words[3] & 0xffffffff
    rc, o, e, _, _ = sh([exe, '%016x' % words[0], '%016x' % words[1], '%016x' % words[2], str(n)], timeout=60); ev.replays += 1
    ev.add('K3_index_strict', what, 'n<=64', 'known-finding' if 'REPRODUCED-D8' in o else ('violated' if rc == 1 else 'inconclusive'), res.solver_s, extra=dict(base, replay=o.strip()[-400:]))
    return rc, o.strip().split('\n')[-1]

def run(tier, only=None):
    ev = Evidence('C16', tier); work = Work('C16')
    ev.assumptions += ['Cartesian grid fields set as the constructor computes them (cellside = side/n, inverse = 1/cellside): the two formulas are replicated in the harness', 'inside the half-open box := a <= p and p < fl(a+s)']
    ev.outside += ['upper index bound (index < n) and Morton coordinate range as bit-precise FP facts: unsat FP queries did not finish on any back end within 900 s (cadical, kissat, z3, cvc5); only the D8 counterexample (sat) is decided', 'Voronoi grids (C15)', 'AMR refinement histories and neighbour pointers', 'path/optical-depth conservation of the legacy interact loops as real numbers', 'Octree / PointLocations searches (heap-growing vector-of-vector structures)']
    violations = []; broken = []
    try:
        hb = [h for h in harnesses_b(tier) if not only or h.name.startswith(only)]
        v, b = run_engine_b('C16', tier, hb, ev, work); violations += v; broken += b
        ha = [h for h in harnesses_a(tier) if not only or h.name.startswith(only)]
        v, b = run_engine_a('C16', tier, ha, ev, work); violations += v; broken += b
        if not only or only == 'K3_index_strict':
            rc, line = d8_known(work, ev, tier)
            if rc == 1:
                listed = [k for k in known_for('C16') if k['id'] == 'D8-top-wall-index'] if 'REPRODUCED-D8' in line else []
                if listed: ev.known_hits.append('%s [%s]' % (listed[0]['what'], line))
                else: violations.append(save_replay('C16', 'K3_index_strict', {'property': 'C16', 'harness': 'K3_index_strict', 'replay': line}))
    except Broken as b:
        broken.append(str(b))
    work.clean()
    finish(ev, violations, '; '.join(broken) if broken else None)

def replay(path): return generic_replay(path, harnesses_a('thorough'))
