import os, sys, shutil
from vlib import *

def prep(work):
    inc = work.path('c14inc'); os.makedirs(inc, exist_ok=True)
    shutil.copy(os.path.join(SRC, 'RestartManager.hpp'), os.path.join(inc, 'RestartManager.hpp'))   # verbatim real text, re-read every run
    for f in os.listdir(os.path.join(VERIF, 'env', 'c14', 'mrepo')): shutil.copy(os.path.join(VERIF, 'env', 'c14', 'mrepo', f), inc)
    return [inc, os.path.join(VERIF, 'env', 'c14', 'mstd')]

def harnesses(pre_inc, tier):
    cf = ['-nostdinc++']
    mb, dm = (8, 10) if tier == 'quick' else (8, 21)
    H = []
    H.append(AHarness('RM_step', 'c14_rm.cpp', 'h_rm_step', unwind=10, defs=['MAXB=%d' % mb, 'DMAX=%d' % dm], pre_inc=pre_inc, cflags=cf, native_replay=False,
        what='inductive step of RestartManager::get_restart_writer from the state after d dumps (representation invariant: dump=v_d, back_i=v_(d-1-i) for i<min(d-1,max)): never reaches cmac_error, rename sources exist, afterwards dump=v_(d+1) and backups newest-first with the oldest dropped; a crash injected before/after every rename, around the truncating open and mid-write leaves a complete v_d on disk when max>=1',
        bound='max_backups in [0,%d], d in [0,%d] (representation invariant is d-generic), crash point in [none, 0..22]; unwind 10' % (mb, dm)))
    H.append(AHarness('RM_fresh', 'c14_rm.cpp', 'h_rm_fresh', unwind=10, defs=['MAXB=8', 'DMAX=4'], pre_inc=pre_inc, cflags=cf, native_replay=False,
        what='three consecutive dumps from a freshly constructed manager (no invariant assumed): no abort, backups newest-first', bound='max_backups in [0,8], 3 dumps'))
    return H

ENV_STUBS = ['std::string / std::stringstream: value model {kind, index} recovered from the literal pieces "/restart.", ".back", "/restart.dump"',
             'std::rename: POSIX contract on an array file system (fails iff source absent, atomic replace)', 'RestartWriter ctor: truncates the dump file',
             'Log, ParameterFile, Timer, RestartReader: empty models']

def real_replay(work):
    def f(h, res, words, payload):
        # replay on the REAL RestartManager + real libstdc++ + real rename(2) in a temp dir under the work directory
        exe = work.path('c14_replay')
        if not os.path.exists(exe):
            rc, o, e, _, _ = sh(['g++', '-std=c++11', '-O1', '-w', '-I', SRC, '-I', cfg_dir(), os.path.join(VERIF, 'harness', 'c14_replay.cpp'), '-o', exe], timeout=300)
            if rc: raise Broken('c14 replay build: ' + e[-1000:])
        maxb = words[0] if words else 0
        crash = None
        if h.name == 'RM_step' and len(words) >= 3:
            crash = words[2] if words[2] < 2**63 else words[2] - 2**64
        dumps = (words[1] + 1) if (h.name == 'RM_step' and len(words) > 1) else 3
        d = work.path('c14_fs'); shutil.rmtree(d, ignore_errors=True); os.makedirs(d)
        rc, o, e, _, _ = sh([exe, d, str(maxb), str(dumps)], timeout=60)
        payload['real_replay'] = {'cmd': 'c14_replay <tmpdir> %d %d' % (maxb, dumps), 'rc': rc, 'stdout': o[-500:], 'stderr': e[-500:]}
        if rc != 0: return 'reproduced'
        if crash is not None and crash >= 0: return 'reproduced-in-translation'   # crash-point clause: no native crash injector; cbmc trace over the translated real text stands
        return 'not-reproduced'
    return f

def run(tier, only=None):
    ev = Evidence('C14', tier); work = Work('C14')
    ev.stubs += ENV_STUBS
    ev.assumptions += ['file system = POSIX rename atomicity on a 10-slot array; fsync/durability outside', 'a write that completes is atomic at the model level (mid-write crash leaves a partial file)']
    ev.outside += ['stop-file / wall-clock trigger, system(resubmit)', 'a manager constructed over a directory that already holds dumps (restart of a restarted run starts with counters 0)']
    try:
        pre = prep(work)
        hs = [h for h in harnesses(pre, tier) if not only or h.name == only]
        violations, broken = run_engine_a('C14', tier, hs, ev, work, known_match=None, custom_replay=real_replay(work))
    except Broken as b:
        violations, broken = [], [str(b)]
    work.clean()
    finish(ev, violations, '; '.join(broken) if broken else None)

def replay(path):
    d = json.load(open(path)); work = Work('C14_replay'); words = [int(w, 16) for w in d['nondet_words']]
    class H: pass
    h = H(); h.name = d['harness']
    v = real_replay(work)(h, None, words, d); print('replay on the real RestartManager:', v, d.get('real_replay')); work.clean()
    return 1 if v.startswith('reproduced') else 0
