import re,sys
ll=open(sys.argv[1]).read()
roots=sys.argv[2:]
funcs={}
for m in re.finditer(r'^define [^@]*@("?[^"\s(]+"?)\(.*?^}', ll, re.S|re.M):
    funcs[m.group(1).strip('"')]=m.group(0)
decl=set(re.findall(r'^declare [^@]*@("?[^"\s(]+"?)\(', ll, re.M))
seen=set(); ext=set(); work=list(roots); indirect=0
while work:
    f=work.pop()
    if f in seen: continue
    seen.add(f)
    body=funcs.get(f)
    if body is None: ext.add(f); continue
    for c in re.findall(r'(?:call|invoke) [^@\n]*?@("?[A-Za-z0-9_.$]+"?)\(', body):
        work.append(c.strip('"'))
    indirect+=len(re.findall(r'(?:call|invoke) [^@\n]*? %[0-9a-z_.]+\(', body))
defd=[f for f in seen if f in funcs]
print("reachable defined:",len(defd),"lines:",sum(funcs[f].count('\n') for f in defd),"indirect calls:",indirect)
print("external:"); 
for e in sorted(ext): print("  ",e)
if '-v' in sys.argv: 
    for f in defd: print(" D",f, funcs[f].count('\n'))
