#include <assert.h>
void __verif_check(unsigned int c){ assert(c); }
void __verif_error(void){ assert(0); __CPROVER_assume(0); }
void h_g1(void);
int main(void){ h_g1();
#ifdef WITNESS
  assert(0);
#endif
  return 0; }
void _ZSt17__throw_bad_allocv(void){ __CPROVER_assume(0); }
void _ZSt20__throw_length_errorPKc(unsigned char *s){ __CPROVER_assume(0); }
void _ZSt28__throw_bad_array_new_lengthv(void){ __CPROVER_assume(0); }
