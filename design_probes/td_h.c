#include <assert.h>
void __verif_check(unsigned int c){ assert(c); }
void __verif_error(void){ assert(0); __CPROVER_assume(0); }
void h_td_tables(void);
int main(void){ h_td_tables();
#ifdef WITNESS
  assert(0);
#endif
  return 0; }
