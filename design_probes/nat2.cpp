#include "HLLCRiemannSolver.hpp"
#include <cstdio>
int main(){ HLLCRiemannSolver s(5./3.); CoordinateVector<> N(1.,0.,0.), MN(-1.,0.,0.), vf(0.);
  // moving gas next to vacuum on the left: L = vacuum, R = gas moving
  double m1=0,E1=0,m2=0,E2=0; CoordinateVector<> p1,p2; CoordinateVector<> uL(0.), uR(0.3,0.,0.);
  s.solve_for_flux(0.,uL,0.,1.,uR,1.,m1,p1,E1,N,vf); s.solve_for_flux(1.,uR,1.,0.,uL,0.,m2,p2,E2,MN,vf);
  printf("F(L=vac,R)    m=%.17g px=%.17g E=%.17g\nF(R,L=vac,-n) m=%.17g px=%.17g E=%.17g\n",m1,p1[0],E1,m2,p2[0],E2); }
