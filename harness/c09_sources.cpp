// C09 (further components): write -> typed tape -> restart constructor -> write for the simple photon source distributions
#define VERIF_TAPE_N 64
#include "tape/verif_tape.hpp"
#include "SingleSupernovaPhotonSourceDistribution.hpp"
#include "SingleStarPhotonSourceDistribution.hpp"
extern "C" {
int verif_tape_tag[VERIF_TAPE_N]; uint64_t verif_tape_u[VERIF_TAPE_N]; double verif_tape_d[VERIF_TAPE_N]; int verif_tape_wpos, verif_tape_rpos;
static inline void tape_reset(void) { verif_tape_wpos = verif_tape_rpos = 0; }
static inline void tapes_equal(int n1) {
  __verif_check(verif_tape_rpos == n1);
  __verif_check(verif_tape_wpos == 2 * n1);
  for (int k = 0; k < n1; ++k) { __verif_check(verif_tape_tag[k] == verif_tape_tag[n1 + k]); __verif_check(verif_tape_u[k] == verif_tape_u[n1 + k]); __verif_check(verif_tape_d[k] == verif_tape_d[n1 + k]); }
}
__attribute__((noinline)) void h_r_supernova(void) {
  SingleSupernovaPhotonSourceDistribution a(CoordinateVector<>(nondet_double(), nondet_double(), nondet_double()), nondet_double(), nondet_double(), nondet_double(), nullptr);
  a._has_exploded = (nondet_uchar() & 1);                              // dumped before or after the explosion
  tape_reset(); RestartWriter w; a.write_restart_file(w); int n1 = verif_tape_wpos;
  RestartReader r; SingleSupernovaPhotonSourceDistribution b(r);
  for (int k = 0; k < 3; ++k) __verif_check(b._position[k] == a._position[k]);
  __verif_check(b._lifetime == a._lifetime); __verif_check(b._luminosity == a._luminosity); __verif_check(b._energy == a._energy);
  __verif_check(b._has_exploded == a._has_exploded);
  __verif_check(b.get_number_of_sources() == a.get_number_of_sources());             // same behaviour right after the restart
  b.write_restart_file(w); tapes_equal(n1);
}
__attribute__((noinline)) void h_r_singlestar(void) {
  SingleStarPhotonSourceDistribution a(CoordinateVector<>(nondet_double(), nondet_double(), nondet_double()), nondet_double(), nullptr);
  tape_reset(); RestartWriter w; a.write_restart_file(w); int n1 = verif_tape_wpos;
  RestartReader r; SingleStarPhotonSourceDistribution b(r);
  for (int k = 0; k < 3; ++k) __verif_check(b._position[k] == a._position[k]);
  __verif_check(b._luminosity == a._luminosity);
  b.write_restart_file(w); tapes_equal(n1);
}
}
