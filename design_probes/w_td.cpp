#include "TravelDirections.hpp"
extern "C" {
int nondet_int(void); double nondet_double(void); void __CPROVER_assume(int); void __verif_check(int);
__attribute__((noinline)) void h_td_tables(void){
  int_fast32_t c = nondet_int(); __CPROVER_assume(c >= 0 && c < 27);
  int_fast32_t i = TravelDirections::output_to_input_direction(c);
  __verif_check(i >= 0 && i < 27);
  __verif_check(TravelDirections::output_to_input_direction(i) == c);
  double d0 = nondet_double(), d1 = nondet_double(), d2 = nondet_double();
  __CPROVER_assume(d0 == d0 && d1 == d1 && d2 == d2);
  CoordinateVector<> d(d0, d1, d2);
  __verif_check(TravelDirections::is_compatible_output_direction(d, c) == TravelDirections::is_compatible_input_direction(d, i));
  int_fast32_t mask = nondet_int(); __CPROVER_assume(mask >= 0 && mask < 64);
  int_fast32_t o = TravelDirections::get_output_direction(mask);
  bool legal = ((mask & 48) != 48) && ((mask & 12) != 12) && ((mask & 3) != 3);
  __verif_check((o >= 0) == legal);
  if (o > 0) { // exit through x-high iff direction with x>0 compatible etc: compatible direction must have matching signs
    double sx = (mask & 32) ? 1. : ((mask & 16) ? -1. : d0), sy = (mask & 8) ? 1. : ((mask & 4) ? -1. : d1), sz = (mask & 2) ? 1. : ((mask & 1) ? -1. : d2);
    __verif_check(TravelDirections::is_compatible_output_direction(CoordinateVector<>(sx, sy, sz), o));
    if (mask & 32) __verif_check(!TravelDirections::is_compatible_output_direction(CoordinateVector<>(-1., sy, sz), o));
  }
}
}
