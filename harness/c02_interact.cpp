// C02: the REAL DensitySubGrid::interact on a small block against the textbook march written here as the specification.
#include "DensitySubGrid.hpp"
#ifndef NCX
#define NCX 1
#define NCY 1
#define NCZ 1
#endif
#define NCELL (NCX * NCY * NCZ)
#define MAXVISIT (NCX + NCY + NCZ - 2 + 1)
union UG3 { DensitySubGrid g; UG3() {} ~UG3() {} }; union UC3 { IonizationVariables c[NCELL]; UC3() {} ~UC3() {} }; union UP3 { PhotonPacket p; UP3() {} ~UP3() {} };
UG3 g_g; UC3 g_c; UP3 g_p;
extern "C" {
static inline bool dom(double x) { double a = x < 0. ? -x : x; return (a == 0.) | ((a >= 0x1p-60) & (a <= 0x1p60)); }
static inline bool posd(double x) { return (x >= 0x1p-60) & (x <= 0x1p60); }
__attribute__((noinline)) void h_interact(void) {
  DensitySubGrid &g = g_g.g; PhotonPacket &ph = g_p.p; IonizationVariables *cells = g_c.c;
  const int n[3] = {NCX, NCY, NCZ};
  double cs[3], inv[3], an[3], p0[3], d[3];
  for (int k = 0; k < 3; ++k) { cs[k] = nondet_double(); inv[k] = nondet_double(); an[k] = nondet_double(); p0[k] = nondet_double(); d[k] = nondet_double();
    __CPROVER_assume(posd(cs[k]) & posd(inv[k]) & dom(an[k]) & dom(p0[k]) & dom(d[k]));
    g._cell_size[k] = cs[k]; g._inv_cell_size[k] = inv[k]; g._anchor[k] = an[k]; g._number_of_cells[k] = n[k]; }
  g._number_of_cells[3] = n[1] * n[2]; g._ionization_variables = cells;
  __CPROVER_assume((d[0] != 0.) | (d[1] != 0.) | (d[2] != 0.));
  double dens[NCELL], xH[NCELL], xHe[NCELL], mi0[NCELL][NUMBER_OF_IONNAMES], heatH0[NCELL], heatHe0[NCELL];
  for (int c = 0; c < NCELL; ++c) { dens[c] = nondet_double(); xH[c] = nondet_double(); xHe[c] = nondet_double(); __CPROVER_assume((dens[c] >= 0.) & (xH[c] >= 0.) & (xHe[c] >= 0.) & dom(dens[c]) & dom(xH[c]) & dom(xHe[c]));
    cells[c]._number_density = dens[c]; cells[c]._ionic_fractions[ION_H_n] = xH[c]; cells[c]._ionic_fractions[ION_He_n] = xHe[c]; cells[c]._tracker = nullptr;
    for (int i = 0; i < NUMBER_OF_IONNAMES; ++i) { mi0[c][i] = nondet_double(); cells[c]._mean_intensity[i] = mi0[c][i]; }
    heatH0[c] = nondet_double(); heatHe0[c] = nondet_double(); cells[c]._heating[HEATINGTERM_H] = heatH0[c]; cells[c]._heating[HEATINGTERM_He] = heatHe0[c]; }
  double sig[NUMBER_OF_IONNAMES]; for (int i = 0; i < NUMBER_OF_IONNAMES; ++i) { sig[i] = nondet_double(); __CPROVER_assume((sig[i] >= 0.) & dom(sig[i])); ph._photoionization_cross_section[i] = sig[i]; }
  const double w = nondet_double(), en = nondet_double(), target = nondet_double(); __CPROVER_assume(posd(w) & posd(en) & posd(target));
  ph._weight = w; ph._energy = en; ph._target_optical_depth = target;
  ph._position = CoordinateVector<>(p0[0], p0[1], p0[2]); ph._direction = CoordinateVector<>(d[0], d[1], d[2]);
  // start cell (entry classification INSIDE): one path family per cell; the packet is assumed to start in that cell as the code computes it
  int idx[3]; double pos[3];
  for (int k = 0; k < 3; ++k) { pos[k] = p0[k] - an[k]; idx[k] = (int)__verif_fork_u(0, n[k] - 1); __CPROVER_assume((int_fast32_t)(pos[k] * inv[k]) == idx[k]); }

  const int_fast32_t out = g.interact(ph, TRAVELDIRECTION_INSIDE);

  // ---- specification: the march, cell by cell
  double tau_done = 0., credit[NCELL]; bool visited[NCELL]; for (int c = 0; c < NCELL; ++c) { credit[c] = 0.; visited[c] = false; }
  bool reached = false; int nvisit = 0;
  for (int step = 0; step < MAXVISIT + 1; ++step) {
    const bool inside = idx[0] >= 0 && idx[0] < n[0] && idx[1] >= 0 && idx[1] < n[1] && idx[2] >= 0 && idx[2] < n[2];
    if (!(tau_done < target) || !inside) break;
    __verif_check(step < MAXVISIT);                                            // the packet cannot visit more cells than a straight line crosses
    const int cell = (idx[0] * n[1] + idx[1]) * n[2] + idx[2];
    __verif_check(!visited[cell]); visited[cell] = true; ++nvisit;             // a straight line enters a cell at most once
    double l[3], wall[3];
    for (int k = 0; k < 3; ++k) {
      const double lo = idx[k] * cs[k], hi = (idx[k] + 1.) * cs[k];
      if (d[k] > 0.) { wall[k] = hi; l[k] = (hi - pos[k]) * (1. / d[k]); } else if (d[k] < 0.) { wall[k] = lo; l[k] = (lo - pos[k]) * (1. / d[k]); } else { wall[k] = 0.; l[k] = DBL_MAX; }
    }
    double lmin = std::min(l[0], std::min(l[1], l[2]));
    const double tau = lmin * dens[cell] * (sig[ION_H_n] * xH[cell] + sig[ION_He_n] * xHe[cell]);   // n * sum(sigma_i x_i) * path
    tau_done += tau;
    bool hit[3] = {l[0] == lmin, l[1] == lmin, l[2] == lmin};
    if (tau_done >= target) { const double correction = (tau_done - target) / tau; lmin *= (1. - correction); reached = true; hit[0] = l[0] == lmin; hit[1] = l[1] == lmin; hit[2] = l[2] == lmin; }
    else { for (int k = 0; k < 3; ++k) if (hit[k]) idx[k] += (d[k] > 0.) ? 1 : -1; }
    credit[cell] = lmin;
    for (int k = 0; k < 3; ++k) pos[k] = hit[k] ? wall[k] : pos[k] + lmin * d[k];
    if (reached) break;
  }
  // ---- obligations
  int mask = 0;
  mask |= (idx[0] >= n[0]) << 5; mask |= (idx[0] < 0) << 4; mask |= (idx[1] >= n[1]) << 3; mask |= (idx[1] < 0) << 2; mask |= (idx[2] >= n[2]) << 1; mask |= (idx[2] < 0);
  if (reached) __verif_check(out == TRAVELDIRECTION_INSIDE);                    // stops inside exactly when the target optical depth is reached
  else { __verif_check(out != TRAVELDIRECTION_INSIDE); __verif_check(out == TravelDirections::get_output_direction(mask)); }   // otherwise leaves through the face/edge/corner the line crosses
  __verif_check(ph._target_optical_depth == target - tau_done);                // optical depth used up = sum over visited cells of n*sigma*x*l
  for (int k = 0; k < 3; ++k) __verif_check(ph._position[k] == pos[k] + an[k]);  // final position: on the crossed walls exactly, otherwise start + path * direction
  for (int c = 0; c < NCELL; ++c) {
    for (int i = 0; i < NUMBER_OF_IONNAMES; ++i) {
      if (visited[c]) __verif_check(cells[c]._mean_intensity[i] == mi0[c][i] + credit[c] * sig[i] * w);     // weight x cross-section x path, once
      else __verif_check(cells[c]._mean_intensity[i] == mi0[c][i]);                                            // cells the line does not cross are untouched
    }
    if (visited[c]) { __verif_check(cells[c]._heating[HEATINGTERM_H] == heatH0[c] + credit[c] * sig[ION_H_n] * w * (en - 3.288e15)); __verif_check(cells[c]._heating[HEATINGTERM_He] == heatHe0[c] + credit[c] * sig[ION_He_n] * w * (en - 5.948e15)); }
    else { __verif_check(cells[c]._heating[HEATINGTERM_H] == heatH0[c]); }
  }
}
// propagate() is interact() without deposition: same exit classification, final position and remaining optical depth (identical terms),
// and it leaves every cell untouched (two runs of the REAL code on the same packet, compared in one path)
UP3 g_p2;
__attribute__((noinline)) void h_propagate(void) {
  DensitySubGrid &g = g_g.g; PhotonPacket &ph = g_p.p, &ph2 = g_p2.p; IonizationVariables *cells = g_c.c;
  const int n[3] = {NCX, NCY, NCZ};
  double cs[3], inv[3], an[3], p0[3], d[3];
  for (int k = 0; k < 3; ++k) { cs[k] = nondet_double(); inv[k] = nondet_double(); an[k] = nondet_double(); p0[k] = nondet_double(); d[k] = nondet_double();
    __CPROVER_assume(posd(cs[k]) & posd(inv[k]) & dom(an[k]) & dom(p0[k]) & dom(d[k]));
    g._cell_size[k] = cs[k]; g._inv_cell_size[k] = inv[k]; g._anchor[k] = an[k]; g._number_of_cells[k] = n[k]; }
  g._number_of_cells[3] = n[1] * n[2]; g._ionization_variables = cells;
  __CPROVER_assume((d[0] != 0.) | (d[1] != 0.) | (d[2] != 0.));
  double m0[NCELL], h0[NCELL];
  for (int c = 0; c < NCELL; ++c) { const double dn = nondet_double(), xh = nondet_double(), xhe = nondet_double(); __CPROVER_assume((dn >= 0.) & (xh >= 0.) & (xhe >= 0.) & dom(dn) & dom(xh) & dom(xhe));
    cells[c]._number_density = dn; cells[c]._ionic_fractions[ION_H_n] = xh; cells[c]._ionic_fractions[ION_He_n] = xhe; cells[c]._tracker = nullptr;
    m0[c] = nondet_double(); h0[c] = nondet_double(); for (int i = 0; i < NUMBER_OF_IONNAMES; ++i) cells[c]._mean_intensity[i] = m0[c]; cells[c]._heating[HEATINGTERM_H] = h0[c]; cells[c]._heating[HEATINGTERM_He] = h0[c]; }
  for (int i = 0; i < NUMBER_OF_IONNAMES; ++i) { const double sg = nondet_double(); __CPROVER_assume((sg >= 0.) & dom(sg)); ph._photoionization_cross_section[i] = sg; ph2._photoionization_cross_section[i] = sg; }
  const double w = nondet_double(), en = nondet_double(), target = nondet_double(); __CPROVER_assume(posd(w) & posd(en) & posd(target));
  ph._weight = ph2._weight = w; ph._energy = ph2._energy = en; ph._target_optical_depth = ph2._target_optical_depth = target;
  ph._position = ph2._position = CoordinateVector<>(p0[0], p0[1], p0[2]); ph._direction = ph2._direction = CoordinateVector<>(d[0], d[1], d[2]);
  for (int k = 0; k < 3; ++k) { const int ix = (int)__verif_fork_u(0, n[k] - 1); __CPROVER_assume((int_fast32_t)((p0[k] - an[k]) * inv[k]) == ix); }
  const int_fast32_t o2 = g.propagate(ph2, TRAVELDIRECTION_INSIDE);
  for (int c = 0; c < NCELL; ++c) { for (int i = 0; i < NUMBER_OF_IONNAMES; ++i) __verif_check(cells[c]._mean_intensity[i] == m0[c]); __verif_check(cells[c]._heating[HEATINGTERM_H] == h0[c] && cells[c]._heating[HEATINGTERM_He] == h0[c]); }
  const int_fast32_t o1 = g.interact(ph, TRAVELDIRECTION_INSIDE);
  __verif_check(o1 == o2);
  __verif_check(ph._target_optical_depth == ph2._target_optical_depth);
  for (int k = 0; k < 3; ++k) __verif_check(ph._position[k] == ph2._position[k]);
}
}
