// Stub of boost::multiprecision integers for Engine B: a thin value class whose +,-,*,<,> are external calls that the
// executor maps to z3 Int operations (mathematical integers).  Placed first on the include path of the C17 harness TU only.
#pragma once
#include <stdint.h>
extern "C" { long __bi_from_u64(uint64_t); long __bi_add(long, long); long __bi_sub(long, long); long __bi_mul(long, long); int __bi_sgn(long); }
namespace boost { namespace multiprecision {
enum cpp_integer_type { signed_magnitude }; enum cpp_int_check_type { unchecked };
template <unsigned A, unsigned B, cpp_integer_type S, cpp_int_check_type C, class V> struct cpp_int_backend {};
template <class B> struct number { long h;
  number() : h(__bi_from_u64(0)) {} number(uint64_t v) : h(__bi_from_u64(v)) {} number(int v) : h(__bi_from_u64((uint64_t)(int64_t)v)) {}
  friend number operator+(number a, number b) { number r; r.h = __bi_add(a.h, b.h); return r; }
  friend number operator-(number a, number b) { number r; r.h = __bi_sub(a.h, b.h); return r; }
  friend number operator*(number a, number b) { number r; r.h = __bi_mul(a.h, b.h); return r; }
  friend bool operator>(number a, int z) { return __bi_sgn(a.h) > 0; } friend bool operator<(number a, int z) { return __bi_sgn(a.h) < 0; } };
typedef number<cpp_int_backend<256, 256, signed_magnitude, unchecked, void> > int256_t;
}}
