// Native replay for C16/D8 on the REAL CartesianDensityGrid (real constructor): prints REPRODUCED-D8 when a position strictly
// below the upper wall gets cell index n although its exact (rational) index is n-1
#include "CartesianDensityGrid.cpp"
#include "DensityGrid.cpp"
#include <cstring>
int main(int argc, char **argv) {
  uint64_t w[3]; double a, s, p; for (int k = 0; k < 3; ++k) w[k] = strtoull(argv[1 + k], 0, 16);
  memcpy(&a, &w[0], 8); memcpy(&s, &w[1], 8); memcpy(&p, &w[2], 8); int n = atoi(argv[4]);
  Box<> box(CoordinateVector<>(a, 0., 0.), CoordinateVector<>(s, 1., 1.));
  CartesianDensityGrid grid(box, CoordinateVector< int_fast32_t >(n, 1, 1));
  CoordinateVector< int_fast32_t > idx = grid.get_cell_indices(CoordinateVector<>(p, 0.5, 0.5));
  const bool inbox = (p >= a && p < a + s);
  long double exact = ((long double)p - (long double)a) / ((long double)s / n);
  if (inbox && idx.x() == n && exact < (long double)n && exact >= (long double)(n - 1)) { printf("REPRODUCED-D8 anchor=%a side=%a n=%d position=%a (inside the half-open box): cell index %ld == n, exact index %.20Lg\n", a, s, n, p, (long)idx.x(), exact); return 1; }
  if (inbox && (idx.x() < 0 || idx.x() >= n)) { printf("REPRODUCED-OTHER index %ld for n=%d exact %.20Lg\n", (long)idx.x(), n, exact); return 1; }
  printf("HOLDS index %ld\n", (long)idx.x()); return 0;
}
