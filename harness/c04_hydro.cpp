// C04 / C10: REAL Hydro::do_flux_calculation (flux application) and REAL HydroDensitySubGrid sweep loops (which faces are visited)
#include "Hydro.hpp"
#include "HydroDensitySubGrid.hpp"
union UH { Hydro h; UH() {} ~UH() {} }; union UG2 { HydroDensitySubGrid g[2]; UG2() {} ~UG2() {} };
UH g_uh; UG2 g_ug2;
extern "C" {
// ---------------- F1 (Engine B): what leaves the left cell enters the right cell; one common limiter factor
static inline void sym_state(HydroVariables &s) {
  for (int k = 0; k < 5; ++k) { s._primitives[k] = nondet_double(); s._conserved[k] = nondet_double(); s._primitive_gradients[k] = CoordinateVector<>(nondet_double(), nondet_double(), nondet_double()); }
  __CPROVER_assume((s._primitives[0] >= 0.) & (s._primitives[4] >= 0.) & (s._conserved[0] >= 0.) & (s._conserved[4] >= 0.));
}
__attribute__((noinline)) void h_f1_flux_application(void) {
  Hydro &hy = g_uh.h;
  const_cast<double &>(hy._gamma) = nondet_double(); __CPROVER_assume((hy._gamma > 1.) & (hy._gamma <= 2.));
  new (const_cast<HLLCRiemannSolver *>(&hy._riemann_solver)) HLLCRiemannSolver(hy._gamma);     // real solver object (its flux function is stubbed in Engine B, real in native replays)
  union U2 { HydroVariables v[4]; U2() {} ~U2() {} } u;
  HydroVariables &L = u.v[0], &R = u.v[1], &L2 = u.v[2], &R2 = u.v[3];
  sym_state(L); sym_state(R);
  __builtin_memcpy(&L2, &L, sizeof(HydroVariables)); __builtin_memcpy(&R2, &R, sizeof(HydroVariables));
  double dL[5], dR[5];
  for (int k = 0; k < 5; ++k) { L._delta_conserved[k] = 0.; R._delta_conserved[k] = 0.; dL[k] = L2._delta_conserved[k] = nondet_double(); dR[k] = R2._delta_conserved[k] = nondet_double(); }
  const double dx = nondet_double(), A = nondet_double(), dt = nondet_double(); __CPROVER_assume((dx > 0.) & (A > 0.) & (dt > 0.));
  hy.do_flux_calculation(DIR, L, R, dx, A, dt);            // run 1: no pending changes
  hy.do_flux_calculation(DIR, L2, R2, dx, A, dt);          // run 2: same states, arbitrary pending changes
  for (int k = 0; k < 5; ++k) {
    __verif_check(R._delta_conserved[k] == -L._delta_conserved[k]);            // equal and opposite, bit for bit
    const double X = R._delta_conserved[k];
    __verif_check(L2._delta_conserved[k] == dL[k] - X);                          // the SAME amount is taken from the left ...
    __verif_check(R2._delta_conserved[k] == dR[k] + X);                          // ... and given to the right, whatever was pending
  }
}
// ---------------- F2 / C10-L1 (Engine A): every face exactly once, left cell on the left
int probe_dir; const HydroVariables *probe_L, *probe_R; int hits, calls, bad;
const HydroVariables *baseL, *baseR; int nc[4]; int sweep_kind;   // 0 inner, 1 outer (this=left), 2 outer (this=right)
static inline void record(int i, const HydroVariables *Lp, const HydroVariables *Rp) {
  ++calls;
  if (i == probe_dir && Lp == probe_L && Rp == probe_R) ++hits;
  // every call must be a geometric face: decode the cell indices from the pointers
  long a = Lp - baseL, b = Rp - baseR; const long nyz = nc[3], nz = nc[2];
  if (a < 0 || a >= (long)nc[0] * nyz || b < 0 || b >= (long)nc[0] * nyz) { ++bad; return; }
  long ax = a / nyz, ay = (a % nyz) / nz, az = a % nz, bx = b / nyz, by = (b % nyz) / nz, bz = b % nz;
  if (sweep_kind == 0) { if (!(bx == ax + (i == 0) && by == ay + (i == 1) && bz == az + (i == 2))) ++bad; }
  else { long al[3] = {ax, ay, az}, bl[3] = {bx, by, bz};
    for (int k = 0; k < 3; ++k) { if (k == i) { if (!(al[k] == nc[k] - 1 && bl[k] == 0)) ++bad; } else if (al[k] != bl[k]) ++bad; } }
}
HydroVariables cells0[27], cells1[27]; double lim0[270], lim1[270];
// geometry handed to the kernels: per axis the harness gives cell size 2+k, inverse cell size 10+k, face area 20+k (exactly representable,
// pairwise different), so a factor taken from the wrong axis is visible; the limiter windows must be those of the two cells of the face
__attribute__((noinline)) void stub_flux(const Hydro *, unsigned char i, HydroVariables *L, HydroVariables *R, double dx, double A, double dt) {
  record(i, L, R); if (!(dx == 2. + i && A == 20. + i && dt == 1.)) ++bad; }
__attribute__((noinline)) void stub_grad(const Hydro *, int i, HydroVariables *L, HydroVariables *R, double dxinv, double *WL, double *WR) {
  record(i, L, R); if (!(dxinv == 10. + i)) ++bad;
  const double *lL = (baseL == cells0) ? lim0 : lim1, *lR = (baseR == cells0) ? lim0 : lim1;
  if (WL != lL + 10 * (L - baseL) || WR != lR + 10 * (R - baseR)) ++bad; }
static inline void setup_grids(void) {
#ifdef NCX
  nc[0] = NCX; nc[1] = NCY; nc[2] = NCZ;                                   // block shape fixed per run (all listed shapes are run); probe face symbolic
#else
  for (int k = 0; k < 3; ++k) { nc[k] = nondet_int(); __CPROVER_assume(nc[k] >= 1 && nc[k] <= NMAXC); }
#endif
  nc[3] = nc[1] * nc[2];
  for (int g = 0; g < 2; ++g) { HydroDensitySubGrid &s = g_ug2.g[g]; for (int k = 0; k < 4; ++k) s._number_of_cells[k] = nc[k];
    s._hydro_variables = g ? cells1 : cells0; s._primitive_variable_limiters = g ? lim1 : lim0;
    for (int k = 0; k < 3; ++k) { s._cell_size[k] = 2. + k; s._inv_cell_size[k] = 10. + k; s._cell_areas[k] = 20. + k; } }
  hits = calls = bad = 0;
}
__attribute__((noinline)) void h_f2_inner(void) {
  setup_grids(); sweep_kind = 0; baseL = baseR = cells0;
  int d = nondet_int(), x = nondet_int(), y = nondet_int(), z = nondet_int();
  __CPROVER_assume(d >= 0 && d < 3 && x >= 0 && y >= 0 && z >= 0 && x < 8 && y < 8 && z < 8 && x + (d == 0) < nc[0] && y + (d == 1) < nc[1] && z + (d == 2) < nc[2]);   // an interior face
  const long a = (long)x * nc[3] + (long)y * nc[2] + z, b = a + (d == 0 ? nc[3] : d == 1 ? nc[2] : 1);
  probe_dir = d; probe_L = &cells0[a]; probe_R = &cells0[b];
#ifdef GRADIENT
  g_ug2.g[0].inner_gradient_sweep(g_uh.h);
#else
  g_ug2.g[0].inner_flux_sweep(g_uh.h, 1.);
#endif
  __verif_check(hits == 1);                                                   // the probe face is visited exactly once, geometrically-left cell on the left
  __verif_check(bad == 0);                                                    // nothing but interior faces is visited
  __verif_check(calls == (nc[0] - 1) * nc[1] * nc[2] + nc[0] * (nc[1] - 1) * nc[2] + nc[0] * nc[1] * (nc[2] - 1));
}
__attribute__((noinline)) void h_f2_outer(void) {
  setup_grids();
  int d = nondet_int(); __CPROVER_assume(d >= 0 && d < 6);                    // the six face directions
  const int dir = TRAVELDIRECTION_FACE_X_P + d, ax = d / 2; const bool positive = (d % 2 == 0);
  sweep_kind = 1; baseL = positive ? cells0 : cells1; baseR = positive ? cells1 : cells0;    // positive direction: this (grid 0) is the left grid
  int u = nondet_int(), v = nondet_int(); int t[3];                           // transverse coordinates of the probe face
  const int a1 = (ax + 1) % 3, a2 = (ax + 2) % 3;
  __CPROVER_assume(u >= 0 && u < nc[a1] && v >= 0 && v < nc[a2]);
  t[ax] = nc[ax] - 1; t[a1] = u; t[a2] = v; const long a = (long)t[0] * nc[3] + (long)t[1] * nc[2] + t[2];
  t[ax] = 0; const long b = (long)t[0] * nc[3] + (long)t[1] * nc[2] + t[2];
  probe_dir = ax; probe_L = baseL + a; probe_R = baseR + b;
#ifdef GRADIENT
  g_ug2.g[0].outer_gradient_sweep(dir, g_uh.h, g_ug2.g[1]);
#else
  g_ug2.g[0].outer_flux_sweep(dir, g_uh.h, g_ug2.g[1], 1.);
#endif
  __verif_check(hits == 1);                                                   // each boundary face pair exactly once, matching transverse indices, upper wall of the left grid against lower wall of the right grid
  __verif_check(bad == 0);
  __verif_check(calls == nc[a1] * nc[a2]);
}
// ---------------- F4 (Engine B): the positivity safeguards - after each kernel mass, energy, density and pressure are >= 0
static inline void sym_cell(HydroVariables &s) {
  for (int k = 0; k < 5; ++k) { s._primitives[k] = nondet_double(); s._conserved[k] = nondet_double(); s._delta_conserved[k] = nondet_double(); s._primitive_gradients[k] = CoordinateVector<>(nondet_double(), nondet_double(), nondet_double()); }
  s._gravitational_acceleration = CoordinateVector<>(nondet_double(), nondet_double(), nondet_double()); s._energy_rate_term = nondet_double(); s._energy_term = nondet_double();
}
static inline void sym_gamma(Hydro &hy) {
  const_cast<double &>(hy._gamma) = nondet_double(); __CPROVER_assume((hy._gamma > 1.) & (hy._gamma <= 2.));
  const_cast<double &>(hy._gamma_minus_one) = nondet_double(); __CPROVER_assume((hy._gamma_minus_one > 0.) & (hy._gamma_minus_one <= 1.));
  const_cast<double &>(hy._one_over_gamma_minus_one) = nondet_double(); __CPROVER_assume(hy._one_over_gamma_minus_one >= 1.);
  const_cast<double &>(hy._max_velocity) = nondet_double(); __CPROVER_assume(hy._max_velocity > 0.);
}
__attribute__((noinline)) void h_f4_update_conserved(void) {
  HydroDensitySubGrid &s = g_ug2.g[0];
  s._number_of_cells[0] = 1; s._number_of_cells[1] = 1; s._number_of_cells[2] = 1; s._number_of_cells[3] = 1;
  s._hydro_variables = cells0; s._primitive_variable_limiters = lim0;
  sym_cell(cells0[0]);                                                       // any finite cell state: conserved values, pending changes and source terms of either sign
  const double dt = nondet_double(); __CPROVER_assume(dt > 0.);
  s.update_conserved_variables(dt);
  __verif_check(cells0[0]._conserved[0] >= 0.);                              // mass never negative
  __verif_check(cells0[0]._conserved[4] >= 0.);                              // total energy never negative
  for (int k = 0; k < 5; ++k) __verif_check(cells0[0]._delta_conserved[k] == 0.);   // pending changes are consumed exactly once
  __verif_check(cells0[0]._energy_term == 0.);
}
__attribute__((noinline)) void h_f4_set_primitive(void) {
  Hydro &hy = g_uh.h; sym_gamma(hy);
  union U1 { HydroVariables v; U1() {} ~U1() {} } u; union U3 { IonizationVariables v; U3() {} ~U3() {} } iv;
  sym_cell(u.v);
  const double inverse_volume = nondet_double(); __CPROVER_assume(inverse_volume > 0.);
  hy.set_primitive_variables(u.v, iv.v, inverse_volume);
  __verif_check(u.v._primitives[0] >= 0.);                                   // density
  __verif_check(u.v._primitives[4] >= 0.);                                   // pressure
  if (!(u.v._conserved[0] > 0.)) { __verif_check(u.v._primitives[0] == 0.); __verif_check(u.v._primitives[4] == 0.);      // empty cell: vacuum state
    __verif_check((u.v._primitives[1] == 0.) & (u.v._primitives[2] == 0.) & (u.v._primitives[3] == 0.)); }
}
__attribute__((noinline)) void h_f4_set_conserved(void) {
  Hydro &hy = g_uh.h; sym_gamma(hy);
  union U1 { HydroVariables v; U1() {} ~U1() {} } u; sym_cell(u.v);
  const double volume = nondet_double(); __CPROVER_assume(volume > 0.);
  hy.set_conserved_variables(u.v, volume);
  __verif_check(u.v._conserved[0] >= 0.);
  __verif_check(u.v._conserved[4] >= 0.);
}
__attribute__((noinline)) void h_f4_predict(void) {
  Hydro &hy = g_uh.h; sym_gamma(hy);
  union U1 { HydroVariables v; U1() {} ~U1() {} } u; sym_cell(u.v);
  __CPROVER_assume((u.v._primitives[0] >= 0.) & (u.v._primitives[4] >= 0.));                 // a valid state before the half-step prediction
  const double dt = nondet_double(); __CPROVER_assume(dt > 0.);
  hy.predict_primitive_variables(u.v, dt);
  __verif_check(u.v._primitives[0] >= 0.);
  __verif_check(u.v._primitives[4] >= 0.);
}
// ---------------- F5 (Engine B): gradient sweep kernel - the face contribution is added to the left cell and subtracted from the right
// cell (same term), only along the face normal, and each cell's limiter window is widened by exactly the neighbour's primitive value
__attribute__((noinline)) void h_f5_gradient_pair(void) {
  Hydro &hy = g_uh.h;
  union U2 { HydroVariables v[2]; U2() {} ~U2() {} } u; HydroVariables &L = u.v[0], &R = u.v[1];
  sym_cell(L); sym_cell(R);
  double gL[5][3], gR[5][3], WL[10], WR[10], WL0[10], WR0[10];
  for (int j = 0; j < 5; ++j) for (int k = 0; k < 3; ++k) { gL[j][k] = L._primitive_gradients[j][k]; gR[j][k] = R._primitive_gradients[j][k]; }
  for (int q = 0; q < 10; ++q) { WL0[q] = WL[q] = nondet_double(); WR0[q] = WR[q] = nondet_double(); }
  const double dxinv = nondet_double(); __CPROVER_assume(dxinv > 0.);
  hy.do_gradient_calculation(DIR, L, R, dxinv, WL, WR);
  for (int j = 0; j < 5; ++j) {
    const double d = 0.5 * (L._primitives[j] + R._primitives[j]) * dxinv;
    for (int k = 0; k < 3; ++k) {
      if (k == DIR) { __verif_check(L._primitive_gradients[j][k] == gL[j][k] + d); __verif_check(R._primitive_gradients[j][k] == gR[j][k] - d); }
      else { __verif_check(L._primitive_gradients[j][k] == gL[j][k]); __verif_check(R._primitive_gradients[j][k] == gR[j][k]); }
    }
    __verif_check(WL[2 * j] == (R._primitives[j] < WL0[2 * j] ? R._primitives[j] : WL0[2 * j]));
    __verif_check(WL[2 * j + 1] == (WL0[2 * j + 1] < R._primitives[j] ? R._primitives[j] : WL0[2 * j + 1]));
    __verif_check(WR[2 * j] == (L._primitives[j] < WR0[2 * j] ? L._primitives[j] : WR0[2 * j]));
    __verif_check(WR[2 * j + 1] == (WR0[2 * j + 1] < L._primitives[j] ? L._primitives[j] : WR0[2 * j + 1]));
  }
}
}
