// Native replay for C19/D7: the REAL TimeLine driven to its end; prints REPRODUCED (exit 1) when the reported end time != requested end time
#include "TimeLine.hpp"
#include <cstring>
#include <cstdio>
int main(int argc, char **argv) {
  uint64_t a = strtoull(argv[1], 0, 16), b = strtoull(argv[2], 0, 16); double start, end; memcpy(&start, &a, 8); memcpy(&end, &b, 8);
  TimeLine tl(start, end, 0., 0., nullptr);
  double actual = 0., now = 0.; int n = 0;
  while (tl.advance(end - start, actual, now) && n < 1000) ++n;
  volatile double T = end - start; volatile double formula = T + start;
  if (now != end && now == formula) { printf("REPRODUCED-D7 reported end time is fl(fl(end-start)+start), one rounding away from end: start=%a end=%a reported_end=%a\n", start, end, now); return 1; }
  if (now != end) { printf("REPRODUCED-OTHER start=%a end=%a reported_end=%a (differs from end by %a) after %d steps\n", start, end, now, now - end, n + 1); return 1; }
  printf("HOLDS start=%a end=%a\n", start, end); return 0;
}
